#!/usr/bin/env python3
"""Re-run every seeded change under /verif/seeded against its property's check (quick tier) and refresh
meta.json + seeded/RESULTS.md. Usage: tools/seedall.py [ID-prefix ...]"""
import json, os, subprocess, sys
ROOT = os.path.dirname(os.path.dirname(os.path.abspath(__file__)))
sd = os.path.join(ROOT, "seeded")
want = sys.argv[1:]
rows = []
for name in sorted(os.listdir(sd)):
    d = os.path.join(sd, name)
    pf = os.path.join(d, "patch.diff")
    if not os.path.isfile(pf):
        continue
    mf = os.path.join(d, "meta.json")
    meta = json.load(open(mf)) if os.path.exists(mf) else {}
    pid = meta.get("property") or name.split("-")[0]
    # an argument names one seed (C01-7) or, without a number, every seed of a property (C01)
    if not want or any(name == w or ("-" not in w and name.startswith(w + "-")) for w in want):
        ids = [pid] + [x for x in meta.get("also_checked_by", []) if x != pid]
        p = subprocess.run([sys.executable, os.path.join(ROOT, "tools", "seedtest.py"), "--keep-replay", d, pf, ",".join(ids)], capture_output=True, text=True)
        res = {}
        for line in p.stdout.splitlines():
            if line.startswith("RESULT "):
                res = json.loads(line[7:])
        if res:
            meta["checks"] = res
            json.dump(meta, open(mf, "w"), indent=1)
        print(name, json.dumps(res), flush=True)
    rows.append((name, pid, meta))
with open(os.path.join(sd, "RESULTS.md"), "w") as f:
    f.write("# Seeded changes and the checks that catch them\n\nEach directory holds patch.diff (never committed to /repo), demonstration.md and meta.json. "
            "Verdicts are from `tools/seedtest.py` (quick tier, scratch worktree of /repo).\n\n| seed | property | change | verdicts |\n|---|---|---|---|\n")
    for name, pid, meta in rows:
        v = "; ".join("%s: %s%s" % (k, x.get("verdict"), (" (" + x.get("sig") + ")") if x.get("sig") else "") for k, x in sorted((meta.get("checks") or {}).items()))
        note = (" — " + meta["note"]) if meta.get("note") else ""
        f.write("| %s | %s | %s | %s%s |\n" % (name, pid, (meta.get("summary") or "").replace("|", "/")[:220], v, note))
print("RESULTS.md written")
