#!/usr/bin/env python3
"""Import the patches a seeding agent left in <dir>/OUT into /verif/seeded/<ID>-<n>/ and test each against
the checks named (default: the property's own check). Usage: tools/seedbatch.py <ID> <agentdir> [extra,ids]"""
import json, os, shutil, subprocess, sys
ROOT = os.path.dirname(os.path.dirname(os.path.abspath(__file__)))
pid, src = sys.argv[1], sys.argv[2]
extra = sys.argv[3].split(",") if len(sys.argv) > 3 and sys.argv[3] else []
offset = int(sys.argv[4]) if len(sys.argv) > 4 else 0  # round 2 patches are stored as <ID>-4..6
out = os.path.join(src, "OUT")
metas = {}
try:
    for m in json.load(open(os.path.join(out, "meta.json"))):
        metas[m.get("patch")] = m
except Exception as e:
    print("no meta.json:", e)
verify = {}
if os.path.exists(os.path.join(out, "verify.json")):
    verify = json.load(open(os.path.join(out, "verify.json")))
for n in (1, 2, 3):
    pf = os.path.join(out, "patch%d.diff" % n)
    if not os.path.exists(pf):
        continue
    if verify and verify.get("patch%d.diff" % n, {}).get("verdict") != "CONFIRMED":
        print("%s-%d SKIPPED (not confirmed by tools/seedverify.py: %s)" % (pid, n + offset, verify.get("patch%d.diff" % n, {}).get("verdict")))
        continue
    dst = os.path.join(ROOT, "seeded", "%s-%d" % (pid, n + offset))
    os.makedirs(dst, exist_ok=True)
    shutil.copy(pf, os.path.join(dst, "patch.diff"))
    dm = os.path.join(out, "demo%d.md" % n)
    if os.path.exists(dm):
        shutil.copy(dm, os.path.join(dst, "demonstration.md"))
    for ext in ("_test.go", ".go"):
        dg = os.path.join(out, "demo%d%s" % (n, ext))
        if os.path.exists(dg):
            shutil.copy(dg, os.path.join(dst, "demonstration" + ext + ".txt"))
    meta = dict(metas.get("patch%d.diff" % n, {}))
    if verify:
        v = verify.get("patch%d.diff" % n, {})
        meta["confirmed"] = ("tools/seedverify.py in a scratch worktree: demonstration passes on the clean tree (rc %s), patch applies and builds, "
                             "demonstration fails with the patch (rc %s), pinned suite passes with the patch (flaky test ignored)" % (v.get("clean_rc"), v.get("patched_rc")))
    meta.update(property=pid, origin="sub-agent given only the property record and a scratch worktree")
    ids = [pid] + extra
    p = subprocess.run([sys.executable, os.path.join(ROOT, "tools", "seedtest.py"), "--keep-replay", dst, pf, ",".join(ids)], capture_output=True, text=True)
    res = {}
    for line in p.stdout.splitlines():
        if line.startswith("RESULT "):
            res = json.loads(line[7:])
        elif line.split(" ")[0] in ("CAUGHT", "MISSED", "INCONCLUSIVE", "PATCH-DOES-NOT-APPLY"):
            print("%s-%d %s" % (pid, n + offset, line), flush=True)
    if not res:
        print(p.stdout[-1500:], p.stderr[-500:])
    meta["checks"] = res
    json.dump(meta, open(os.path.join(dst, "meta.json"), "w"), indent=1)
