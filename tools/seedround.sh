#!/bin/bash
# tools/seedround.sh <offset> <basedir> <ID>...   verify + import + test the deliverables of seeding agents under <basedir>/<ID>
off=$1; shift; base=$1; shift
for id in "$@"; do
  python3 /verif/tools/seedverify.py $base/$id > $base/$id/verify.log 2>&1
  python3 /verif/tools/seedbatch.py $id $base/$id "" $off 2>&1 | tee -a $base/results.log
done
