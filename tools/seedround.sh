#!/bin/bash
# tools/seedround.sh <offset> <ID>...   verify + import + test the deliverables of seeding agents under /tmp/seed3/<ID>
off=$1; shift
for id in "$@"; do
  python3 /verif/tools/seedverify.py /tmp/seed3/$id > /tmp/seed3/$id/verify.log 2>&1
  python3 /verif/tools/seedbatch.py $id /tmp/seed3/$id "" $off 2>&1 | tee -a /tmp/seed3/results.log
done
