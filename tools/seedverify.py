#!/usr/bin/env python3
"""Confirm what a seeding agent delivered, in its own scratch worktree (never /repo):
for every OUT/patchN.diff: the demonstration passes on the clean tree, the patch applies and builds, the
demonstration fails with it, the pinned suite still passes with it. Prints one line per patch and writes
OUT/verify.json. Usage: tools/seedverify.py /tmp/seed3/C06"""
import json, os, re, shutil, subprocess, sys
d = os.path.abspath(sys.argv[1])
repo, out = os.path.join(d, "repo"), os.path.join(d, "OUT")
env = dict(os.environ, GOFLAGS="-mod=mod", GOPROXY="off", GOSUMDB="off", GOTOOLCHAIN="local")
FLAKY = "TestDatastore_expandUpdateLeafAsKeys"


def sh(cmd, cwd=repo, timeout=900):
    try:
        p = subprocess.run(cmd, cwd=cwd, env=env, shell=isinstance(cmd, str), capture_output=True, text=True, timeout=timeout)
        return p.returncode, p.stdout + p.stderr
    except subprocess.TimeoutExpired as e:
        return 124, "TIMEOUT " + str(e)


def clean():
    sh("git checkout -q -- . && git clean -fdq")


metas = json.load(open(os.path.join(out, "meta.json")))
res = {}
for m in metas:
    name = m["patch"]
    n = re.search(r"(\d+)", name).group(1)
    r = dict(patch=name)
    clean()
    demo = m.get("demo") or ("demo%s_test.go" % n)
    ddir = m.get("demo_dir") or ""
    dcmd = m.get("demo_cmd") or ""
    src = os.path.join(out, demo)
    if not os.path.exists(src) or not dcmd:
        r["verdict"] = "NO-DEMO"
        res[name] = r
        print(name, r)
        continue
    dst = os.path.join(repo, ddir, os.path.basename(demo) if demo.endswith("_test.go") else demo)
    if not dst.endswith("_test.go") and demo.endswith(".go") and "_test" in dcmd:
        pass
    os.makedirs(os.path.dirname(dst), exist_ok=True)
    shutil.copy(src, dst)
    # demo commands are written relative to the repo root; strip a leading cd into the worktree
    dcmd = re.sub(r"\s+\(.*\)\s*$", "", dcmd)
    for _ in range(4):
        dcmd = re.sub(r"^\s*(cd|cp|export)\s+[^&]+&&\s*", "", dcmd)
    # commands that do not name a package path are meant to run inside the demo directory
    dcwd = repo if ("./" + ddir.strip("/")) in dcmd or not ddir else os.path.join(repo, ddir)
    rc0, o0 = sh(dcmd, cwd=dcwd)
    r["clean_rc"] = rc0
    rc, o = sh(["git", "apply", "--whitespace=nowarn", os.path.join(out, name)])
    if rc != 0:
        r["verdict"] = "PATCH-DOES-NOT-APPLY"
        r["detail"] = o[-400:]
        res[name] = r
        print(name, r)
        continue
    rcb, ob = sh("go build ./... ")
    r["build_rc"] = rcb
    rc1, o1 = sh(dcmd, cwd=dcwd)
    r["patched_rc"] = rc1
    os.remove(dst)
    rcs, os_ = sh("go test -vet=off -count=1 ./... 2>&1")
    fails = [l for l in os_.splitlines() if l.startswith("--- FAIL") and FLAKY not in l]
    pkgfail = [l for l in os_.splitlines() if l.startswith("FAIL") and "\t" in l]
    if rcs != 0 and not fails and pkgfail:
        # only the flaky test failed? re-run once
        rcs, os_ = sh("go test -vet=off -count=1 ./... 2>&1")
        fails = [l for l in os_.splitlines() if l.startswith("--- FAIL") and FLAKY not in l]
    r["suite_rc"] = rcs
    r["suite_fails"] = fails[:5]
    ok = rc0 == 0 and rcb == 0 and rc1 != 0 and (rcs == 0 or not fails and "build failed" not in os_)
    r["verdict"] = "CONFIRMED" if ok else "REJECTED"
    if not ok:
        r["detail"] = {"clean": o0[-600:], "patched": o1[-600:], "suite": os_[-600:] if rcs else ""}
    res[name] = r
    print(name, json.dumps({k: v for k, v in r.items() if k != "detail"}), flush=True)
    if not ok:
        print(json.dumps(r.get("detail"), indent=1)[:2500])
clean()
json.dump(res, open(os.path.join(out, "verify.json"), "w"), indent=1)
