#!/usr/bin/env python3
"""Apply a seeded change to a scratch worktree of /repo (or, with --inplace, to /repo itself), run checks, clean up.
Never commits anything in /repo.

  tools/seedtest.py [--inplace] <patch.diff> <ID>[,<ID>...] [quick|thorough]

Prints one line per check: CAUGHT (exit 1 with VIOLATION line), MISSED (exit 0) or INCONCLUSIVE (exit 2).
Evidence and replay files of these runs go to a scratch directory, not to /verif/evidence.
"""
import os, subprocess, sys, tempfile, shutil, json, time
ROOT = os.path.dirname(os.path.dirname(os.path.abspath(__file__)))
inplace = "--inplace" in sys.argv
keep = None  # --keep-replay <dir>: copy the replay file of a CAUGHT verdict to <dir>/replay-<ID>.json
if "--keep-replay" in sys.argv:
    i = sys.argv.index("--keep-replay")
    keep = os.path.abspath(sys.argv[i + 1])
    del sys.argv[i:i + 2]
args = [a for a in sys.argv[1:] if a != "--inplace"]
patch, ids = os.path.abspath(args[0]), args[1].split(",")
tier = args[2] if len(args) > 2 else "quick"
scratch = tempfile.mkdtemp(prefix="verif-seed-")
if inplace:
    repo = "/repo"
    st = subprocess.run(["git", "-C", "/repo", "status", "--porcelain"], capture_output=True, text=True).stdout.strip()
    if st:
        print("refusing: /repo working tree is not clean:\n" + st)
        sys.exit(2)
else:
    repo = os.path.join(scratch, "repo")
    subprocess.run(["git", "-C", "/repo", "worktree", "add", "-q", "--detach", repo, "HEAD"], check=True)
r = subprocess.run(["git", "-C", repo, "apply", "--whitespace=nowarn", patch], capture_output=True, text=True)
if r.returncode != 0:
    print("PATCH-DOES-NOT-APPLY " + r.stderr.strip()[:300])
    if not inplace:
        subprocess.run(["git", "-C", "/repo", "worktree", "remove", "--force", repo])
    shutil.rmtree(scratch, ignore_errors=True)
    sys.exit(2)
res = {}
try:
    for pid in ids:
        env = dict(os.environ, VERIF_EVIDENCE_DIR=os.path.join(scratch, "ev"), VERIF_REPLAYS_DIR=os.path.join(scratch, "rp"))
        if not inplace:
            env["VERIF_REPO"] = repo
        t0 = time.time()
        p = subprocess.run([sys.executable, os.path.join(ROOT, "run.py"), "check", pid, tier], env=env, capture_output=True, text=True)
        out = p.stdout + p.stderr
        verdict = {0: "MISSED", 1: "CAUGHT"}.get(p.returncode, "INCONCLUSIVE")
        sig = ""
        for line in out.splitlines():
            if line.strip().startswith("sig="):
                sig = line.strip()[4:]
                break
        if p.returncode == 1 and "VIOLATION property=" not in out:
            verdict = "INCONCLUSIVE"
        if verdict == "CAUGHT" and keep:
            for line in out.splitlines():
                if line.startswith("VIOLATION property=") and " replay=" in line:
                    rp = line.split(" replay=", 1)[1].strip()
                    if os.path.isfile(rp):
                        shutil.copy(rp, os.path.join(keep, "replay-%s.json" % pid))
                    break
        print("%s %s %s %.0fs %s" % (verdict, pid, tier, time.time() - t0, sig))
        if verdict == "INCONCLUSIVE":
            print(out[-1500:])
        res[pid] = dict(verdict=verdict, sig=sig, wall_s=round(time.time() - t0, 1))
finally:
    if inplace:
        subprocess.run(["git", "-C", "/repo", "checkout", "--", "."], check=True)
    else:
        subprocess.run(["git", "-C", "/repo", "worktree", "remove", "--force", repo])
    shutil.rmtree(scratch, ignore_errors=True)
print("RESULT " + json.dumps(res))
