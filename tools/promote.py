#!/usr/bin/env python3
"""Promote the shrunk case that caught a seeded change (seeded/<seed>/replay-<ID>.json) into the regression corpus
regress/<ID>/seed-<seed>.json, provided it passes on the unchanged tree (a regression case must be silent there).
Crash / race journals are not promoted (they are not deterministic). Usage: tools/promote.py <seed-dir>"""
import json, os, shutil, subprocess, sys
ROOT = os.path.dirname(os.path.dirname(os.path.abspath(__file__)))
d = os.path.abspath(sys.argv[1])
name = os.path.basename(d)
for fn in sorted(os.listdir(d)):
    if not (fn.startswith("replay-") and fn.endswith(".json")):
        continue
    pid = fn[len("replay-"):-5]
    src = os.path.join(d, fn)
    try:
        doc = json.load(open(src))
    except Exception:
        continue
    sig = doc.get("sig", "")
    if ":process-crash" in sig or ":data-race" in sig or "case" not in doc:
        print(name, pid, "SKIP", sig)
        continue
    p = subprocess.run([sys.executable, os.path.join(ROOT, "run.py"), "replay", pid, src], capture_output=True, text=True)
    if p.returncode == 0 and "REPLAY-PASS" in p.stdout:
        dst = os.path.join(ROOT, "regress", pid)
        os.makedirs(dst, exist_ok=True)
        doc["detail"] = "shrunk case that exposed seeded change %s (%s); passes on the unchanged tree" % (name, sig)
        json.dump(doc, open(os.path.join(dst, "seed-%s.json" % name), "w"))
        print(name, pid, "PROMOTED", sig)
    else:
        print(name, pid, "NOT-SILENT-ON-CLEAN rc=%s" % p.returncode, sig)
