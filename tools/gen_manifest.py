#!/usr/bin/env python3
"""Regenerates /verif/MANIFEST.json from tools/checks.json (claimed checks) and properties.jsonl."""
import json, os, subprocess
ROOT = os.path.dirname(os.path.dirname(os.path.abspath(__file__)))
props = [json.loads(l) for l in open(os.path.join(ROOT, "properties.jsonl"))]
spec = json.load(open(os.path.join(ROOT, "tools", "checks.json")))
claimed = {c["id"]: c for c in spec["checks"]}
na = {c["id"]: c["reason"] for c in spec.get("not_applicable", [])}
hook_commits = subprocess.run(["git", "-C", "/repo", "log", "--format=%H %s"], stdout=subprocess.PIPE, text=True).stdout.splitlines()
hook_commits = [l.split()[0] for l in hook_commits if l.split(" ", 1)[1].startswith("verif hook")]
checks = []
for p in props:
    c = claimed.get(p["id"])
    if not c:
        continue
    checks.append({
        "property_id": p["id"],
        "quick_cmd": "python3 run.py check %s quick" % p["id"],
        "thorough_cmd": "python3 run.py check %s thorough" % p["id"],
        "evidence_file": "/verif/evidence/%s.json" % p["id"],
        "replay_cmd_template": "python3 run.py replay %s {path}" % p["id"],
        "engine": "rapid-harness",
        "level_claimed": {"category": c["category"], "text": c["text"], "design_ref": "DESIGN.md section 2, %s" % p["id"]},
        "level_note": c["note"],
        "technique": c["technique"],
    })
m = {
    "version": 1,
    "setup_cmd": "python3 run.py setup",
    "hooks": {
        "guard": "verif",
        "enable": "Go build tag: the checks run `go test -tags verif` in /verif/harness, whose go.mod replaces github.com/sdcio/data-server with /repo",
        "baseline_off_cmd": "for m in $(cat /w/out/gomods.txt); do MF=$(cd /repo/$m && . /w/out/goenv.sh && gomodflag); (cd /repo/$m && go test $MF -json -vet=off -count=1 -timeout 25m ./...); done",
        "source_commits": hook_commits,
        "add_only": True,
    },
    "engines": [{
        "name": "rapid-harness", "path": "/verif/harness", "serves_properties": sorted(claimed),
        "kind_free_text": "Go module: pgregory.net/rapid v1.3.0 properties (stateful histories, fault/schedule enumeration) and native go fuzz targets driving the real data-server packages with a real badger cache and the in-process schema-server; run.py builds from /repo's working tree, shards by seed, aggregates evidence",
    }],
    "checks": checks,
    "not_applicable": [{"property_id": p["id"], "reason": na.get(p["id"], "check not built yet (work in progress; planned design in DESIGN.md section 2)")} for p in props if p["id"] not in claimed],
    "notes": "Every check is a generated-input search against an explicit oracle (reference model, round trip, differential / metamorphic relation or history invariant). Genuine defects found on the pinned tree were repaired by `fix:` commits in /repo or are listed in known_findings.json; see DESIGN.md section 7.",
}
json.dump(m, open(os.path.join(ROOT, "MANIFEST.json"), "w"), indent=1)
print("claimed:", sorted(claimed), "not_applicable:", len(m["not_applicable"]))
