#!/usr/bin/env python3
"""Driver of the verification checks.

  python3 run.py setup                      build every check binary once (warms the Go build cache)
  python3 run.py check <ID> <quick|thorough>
  python3 run.py replay <ID> <file>         run a stored case without rapid
  python3 run.py all <quick|thorough>       every claimed property, sequentially

Exit codes of `check`: 0 = held on everything explored (KNOWN-FINDING lines allowed),
1 = a violation not listed in known_findings.json (line "VIOLATION property=<id> replay=<path>"),
2 = inconclusive infrastructure problem (build failure, time budget, worker death) - never a violation.
"""
import json
import os
import re
import shutil
import subprocess
import sys
import tempfile
import time

ROOT = os.path.dirname(os.path.abspath(__file__))
HARNESS = os.path.join(ROOT, "harness")
NCPU = os.cpu_count() or 4

# per-property configuration -------------------------------------------------
#  pkg: harness package; level: evidence level
#  quick / thorough: list of "runs"; each run = dict(test=regex, checks=N, shards=K, env={}, race=bool, timeout=s, fuzz=...)
def R(test="TestProp", checks=100, shards=1, env=None, race=False, timeout=600, extra=None):
    return dict(test=test, checks=checks, shards=shards, env=env or {}, race=race, timeout=timeout, extra=extra or [])


def F(name, seconds):
    """native go fuzz campaign (thorough tier only; cannot be seeded, the saved crasher is the reproducible unit)"""
    return dict(fuzz=name, fuzztime=seconds, test=name, checks=0, shards=1, env={}, race=False, timeout=seconds + 300, extra=[])

PROPS = {
    "C01": dict(pkg="c01", level="exploration",
                quick=[R(checks=1200), R(checks=300, shards=2, env={"VERIF_C01_LOOP": "1"}), R(checks=70, shards=2, env={"VERIF_C01_NCLOOP": "1"})],
                thorough=[R(checks=6000, shards=16, timeout=1500), R(checks=4000, shards=8, timeout=1500, env={"VERIF_C01_LOOP": "1"}),
                          R(checks=700, shards=8, timeout=1500, env={"VERIF_C01_NCLOOP": "1"})]),
    "C02": dict(pkg="c02", level="exploration",
                quick=[R(checks=1200)],
                thorough=[R(checks=6000, shards=16, timeout=1500)]),
    "C03": dict(pkg="c03", level="exploration",
                quick=[R(checks=1500)],
                thorough=[R(checks=6000, shards=16, timeout=1500)]),
    "C04": dict(pkg="c04", level="exploration",
                quick=[R(checks=1500)],
                thorough=[R(checks=5000, shards=16, timeout=1500)]),
    "C05": dict(pkg="c05", level="exploration",
                quick=[R(checks=800), R(checks=60, shards=2, env={"VERIF_C05_LOOP": "nc"})],
                thorough=[R(checks=4000, shards=16, timeout=1500), R(checks=600, shards=8, timeout=1500, env={"VERIF_C05_LOOP": "nc"})]),
    "C06": dict(pkg="c06", level="exploration",
                quick=[R(checks=110, shards=8, timeout=900)],
                thorough=[R(checks=500, shards=16, timeout=2400)]),
    "C07": dict(pkg="c07", level="exploration",
                quick=[R(checks=550, shards=2)],
                thorough=[R(checks=2500, shards=16, timeout=2400)]),
    "C08": dict(pkg="c08", level="exploration",
                quick=[R(checks=1500)],
                thorough=[R(checks=6000, shards=16, timeout=1500)]),
    "C09": dict(pkg="c09", level="exploration",
                quick=[R(checks=1200), R(checks=250, shards=2, env={"VERIF_C09_LOOP": "gnmi"}), R(checks=70, shards=2, env={"VERIF_C09_LOOP": "nc"})],
                thorough=[R(checks=6000, shards=16, timeout=1500), R(checks=4000, shards=8, timeout=1500, env={"VERIF_C09_LOOP": "gnmi"}),
                          R(checks=700, shards=8, timeout=1500, env={"VERIF_C09_LOOP": "nc"})]),
    "C10": dict(pkg="c10", level="exploration",
                quick=[R(checks=700)],
                thorough=[R(checks=3000, shards=16, timeout=1800)]),
    "C11": dict(pkg="c11", level="exploration",
                quick=[R(checks=6000)],
                thorough=[R(checks=60000, shards=16, timeout=1500)]),
    "C12": dict(pkg="c12", level="exploration",
                quick=[R(checks=20000)],
                thorough=[R(checks=80000, shards=16, timeout=2400)]),
    "C13": dict(pkg="c13", level="exploration",
                quick=[R(checks=600, shards=2), R(checks=100, shards=4, env={"VERIF_C13_DEV": "1"}),
                       R(checks=250, shards=2, env={"VERIF_C13_LOOP": "gnmi"}), R(checks=60, shards=2, env={"VERIF_C13_LOOP": "nc"})],
                thorough=[R(checks=4000, shards=16, timeout=1800), R(checks=3000, shards=8, timeout=1500, env={"VERIF_C13_LOOP": "gnmi"}),
                          R(checks=600, shards=8, timeout=1500, env={"VERIF_C13_LOOP": "nc"})]),
    "C14": dict(pkg="c14", level="exploration",
                quick=[R(checks=4000)],
                thorough=[R(checks=20000, shards=16, timeout=1800)]),
    "C15": dict(pkg="c15", level="exploration",
                quick=[R(checks=2500)],
                thorough=[R(checks=10000, shards=16, timeout=1800)]),
    "C16": dict(pkg="c16", level="exploration",
                quick=[R(checks=100, shards=8, env={"VERIF_JOURNAL": "1"}, timeout=900)],
                thorough=[R(checks=600, shards=16, env={"VERIF_JOURNAL": "1"}, timeout=2400)]),
    "C17": dict(pkg="c17", level="exploration",
                quick=[R(checks=700), R(checks=60, shards=8, race=True, env={"VERIF_JOURNAL": "1", "GORACE": "halt_on_error=1"}, timeout=900)],
                thorough=[R(checks=3000, shards=8, timeout=1800), R(checks=600, shards=16, race=True, env={"VERIF_JOURNAL": "1", "GORACE": "halt_on_error=1"}, timeout=2400)]),
    "C18": dict(pkg="c18", level="exploration",
                quick=[R(checks=4000)],
                thorough=[R(checks=20000, shards=16, timeout=1800)]),
    "C19": dict(pkg="c19", level="exploration",
                quick=[R(checks=700, env={"VERIF_JOURNAL": "1"}, timeout=900), R(test="TestDevMgr", checks=1, env={"VERIF_JOURNAL": "1"}, timeout=300)],
                thorough=[R(checks=2500, shards=16, env={"VERIF_JOURNAL": "1"}, timeout=2400), R(test="TestDevMgr", checks=2, shards=4, env={"VERIF_JOURNAL": "1"}, timeout=600)]),
    "C20": dict(pkg="c20", level="exploration",
                quick=[R(checks=12000, timeout=900)],
                thorough=[R(checks=40000, shards=16, timeout=2400), F("FuzzPath", 120), F("FuzzJSONIntent", 150), F("FuzzXML", 120), F("FuzzDeviceNotification", 150)]),
}

ASSUMPTIONS = {
    "*": [
        "the harness schema (/verif/schema) and its hand-written table agree (checked at start-up against the real schema-server)",
        "payload decoders, merge model and value denotation of the harness are correct",
        "real collaborators: sdcio/cache v0.0.35 (badger) and schema-server v0.0.30 in process; the device is the harness's recording target installed through hook H1",
    ],
}


def goenv():
    env = dict(os.environ)
    env.update(GOFLAGS="-mod=mod", GOPROXY="off", GOSUMDB="off", GOTOOLCHAIN="local",
               VERIF_ROOT=ROOT, VERIF_SCHEMA_DIR=os.path.join(ROOT, "schema"))
    return env


def ensure_gosum():
    src, dst = "/repo/go.sum", os.path.join(HARNESS, "go.sum")
    if not os.path.exists(dst):
        shutil.copy(src, dst)


def modfile_args(outdir):
    """tools/seedtest.py only: VERIF_REPO points the harness at a scratch worktree of data-server instead of /repo
    (alternative go.mod through -modfile; the registered commands never set it and build from /repo)."""
    repo = os.environ.get("VERIF_REPO")
    if not repo:
        return []
    alt = os.path.join(outdir, "go.alt.mod")
    if not os.path.exists(alt):
        mod = open(os.path.join(HARNESS, "go.mod")).read().replace("=> /repo\n", "=> %s\n" % repo)
        open(alt, "w").write(mod)
        shutil.copy(os.path.join(HARNESS, "go.sum"), os.path.join(outdir, "go.alt.sum"))
    return ["-modfile=" + alt]


def build(pkg, outdir, race=False):
    ensure_gosum()
    out = os.path.join(outdir, pkg + (".race" if race else "") + ".test")
    cmd = ["go", "test", "-c", "-tags", "verif", "-vet=off", "-o", out] + modfile_args(outdir)
    if race:
        cmd.append("-race")
    cmd.append("./" + pkg)
    p = subprocess.run(cmd, cwd=HARNESS, env=goenv(), stdout=subprocess.PIPE, stderr=subprocess.STDOUT, text=True)
    if p.returncode != 0:
        print("BUILD-FAILED\n" + p.stdout)
        return None
    return out


def seed_for(base, shard, runix):
    # never 0 (rapid: 0 = random); distinct per shard and per run
    return (int(base) * 2 + 1) + (shard << 32) + (runix << 48)


def run_check(pid, tier):
    cfg = PROPS[pid]
    base_seed = int(os.environ.get("VERIF_SEED", "1"))
    t0 = time.time()
    work = tempfile.mkdtemp(prefix="verif-%s-" % pid)
    statsdir = os.path.join(work, "stats")
    os.makedirs(statsdir)
    replaydir = os.environ.get("VERIF_REPLAYS_DIR") or os.path.join(ROOT, "replays")
    os.makedirs(replaydir, exist_ok=True)
    status = 0
    notes = []
    try:
        bins = {}
        for run in cfg[tier]:
            if run.get("fuzz"):
                continue
            key = bool(run["race"])
            if key not in bins:
                b = build(cfg["pkg"], work, race=key)
                if b is None:
                    return finish(pid, tier, base_seed, cfg, statsdir, t0, 2, ["build failed"])
                bins[key] = b
        # 1. replay known findings (prints KNOWN-FINDING lines)
        env = goenv()
        # VERIF_JOURNAL: every worker journals the case in flight, a worker death becomes a violation with that replay
        env.update(VERIF_STATS_DIR=statsdir, VERIF_REPLAY_DIR=replaydir, VERIF_TMP=work, VERIF_TIER=tier, VERIF_JOURNAL="1")
        p = subprocess.run([bins[sorted(bins)[0]], "-test.run", "^TestKnown$", "-test.timeout", "300s"],
                           cwd=os.path.join(HARNESS, cfg["pkg"]), env=env, stdout=subprocess.PIPE, stderr=subprocess.STDOUT, text=True)
        for line in p.stdout.splitlines():
            if line.startswith("KNOWN-FINDING"):
                print(line)
        if p.returncode != 0:
            crashed = "panic: test timed out" not in p.stdout and re.search(r"^(panic: |fatal error: |WARNING: DATA RACE)", p.stdout, re.M)
            if "VIOLATION-CANDIDATE" in p.stdout:
                status = 1
            elif crashed:
                # the stored case of a known finding now kills the process: that is not how it is recorded
                started = re.findall(r"^KNOWN-REPLAY-START (\S+)", p.stdout, re.M)
                rp = os.path.join(ROOT, started[-1]) if started else "?"
                print("VIOLATION property=%s replay=%s" % (pid, rp))
                print("  sig=%s:process-crash-in-known-finding-replay" % pid)
                print("  " + p.stdout[crashed.start():crashed.start() + 2500].replace("\n", "\n  "))
                status = 1
            else:
                print(p.stdout[-3000:])
                status = 2
                notes.append("known-finding replay died")
        # 2. the generated search
        for runix, run in enumerate(cfg[tier]):
            procs = []
            if run.get("fuzz"):
                e = dict(env)
                cmd = ["go", "test", "-tags", "verif", "-vet=off", "-count=1"] + modfile_args(work) + ["-run", "^$", "-fuzz", "^%s$" % run["fuzz"],
                       "-fuzztime", "%ds" % run["fuzztime"], "-timeout", "%ds" % run["timeout"], "."]
                for attempt in (1, 2):
                    log = open(os.path.join(work, "run%d-fuzz.log" % runix), "w")
                    pr = subprocess.Popen(cmd, cwd=os.path.join(HARNESS, cfg["pkg"]), env=e, stdout=log, stderr=subprocess.STDOUT)
                    try:
                        rc = pr.wait(timeout=run["timeout"] + 120)
                    except subprocess.TimeoutExpired:
                        pr.kill()
                        rc = -9
                    log.close()
                    out = open(log.name).read()
                    # a worker process that goes away between two inputs (no input to blame, nothing saved) is an
                    # infrastructure event: keep the log for triage and run the campaign once more
                    if rc != 0 and "terminated without fuzzing" in out and "VIOLATION-CANDIDATE" not in out and attempt == 1:
                        shutil.copy(log.name, os.path.join(ROOT, "replays", "%s-fuzz-%s-worker-lost.log" % (pid, run["fuzz"])))
                        notes.append("fuzz %s: a worker went away between inputs, campaign repeated" % run["fuzz"])
                        continue
                    break
                m = re.findall(r"execs: (\d+)", out)
                notes.append("fuzz %s: %s execs in %ds" % (run["fuzz"], m[-1] if m else "?", run["fuzztime"]))
                if rc != 0:
                    if "VIOLATION-CANDIDATE" in out:
                        status = 1 if status == 0 else status
                        print(out[-3000:])
                    else:
                        print(out[-3000:])
                        notes.append("fuzz %s: infrastructure failure rc=%s" % (run["fuzz"], rc))
                        status = 2 if status == 0 else status
                continue
            for shard in range(run["shards"]):
                e = dict(env)
                e.update(run["env"])
                e["VERIF_SHARD"] = str(shard)
                seed = seed_for(base_seed, shard, runix)
                cmd = [bins[bool(run["race"])], "-test.run", "^%s$" % run["test"], "-test.v",
                       "-test.timeout", "%ds" % run["timeout"],
                       "-rapid.checks=%d" % run["checks"], "-rapid.seed=%d" % seed, "-rapid.shrinktime=20s",
                       "-rapid.nofailfile"] + run["extra"]
                log = open(os.path.join(work, "run%d-shard%d.log" % (runix, shard)), "w")
                procs.append((subprocess.Popen(cmd, cwd=os.path.join(HARNESS, cfg["pkg"]), env=e, stdout=log, stderr=subprocess.STDOUT), log, shard, run))
            for pr, log, shard, run in procs:
                try:
                    rc = pr.wait(timeout=run["timeout"] + 120)
                except subprocess.TimeoutExpired:
                    pr.kill()
                    rc = -9
                log.close()
                out = open(log.name).read()
                if rc == 0:
                    m = re.findall(r"OK, passed (\d+) tests", out)
                    if m and sum(int(x) for x in m) < run["checks"] and "TestProp" in run["test"]:
                        notes.append("run %d shard %d truncated: %s of %d cases" % (runix, shard, m, run["checks"]))
                    continue
                crash = crash_violation(pid, out, replaydir, shard, run, statsdir)
                if "VIOLATION-CANDIDATE" in out or crash:
                    status = max(status, 1) if status != 2 else status
                    if status == 0:
                        status = 1
                elif "HARNESS-ERROR" in out or "panic: test timed out" in out or rc in (-9, 2):
                    print(out[-4000:])
                    notes.append("run %d shard %d: infrastructure failure rc=%s" % (runix, shard, rc))
                    status = 2 if status == 0 else status
                else:
                    print(out[-4000:])
                    notes.append("run %d shard %d: unexpected exit rc=%s" % (runix, shard, rc))
                    status = 2 if status == 0 else status
        return finish(pid, tier, base_seed, cfg, statsdir, t0, status, notes)
    finally:
        shutil.rmtree(work, ignore_errors=True)


def crash_violation(pid, out, replaydir, shard, run, statsdir):
    """A panic in a goroutine spawned by the code under test kills the worker. With VERIF_JOURNAL the
    harness journals the case in flight; that journal becomes the replay file of the violation."""
    if "panic: test timed out" in out or not re.search(r"^(panic: |fatal error: |WARNING: DATA RACE)", out, re.M):
        return False
    j = os.path.join(replaydir, "%s-inflight-%d.json" % (pid, shard))
    if not os.path.exists(j):
        # nothing in flight: a goroutine left behind by the previous case killed the process
        j = os.path.join(replaydir, "%s-last-%d.json" % (pid, shard))
    if not os.path.exists(j):
        return False
    m = re.search(r"^(?:panic: |fatal error: |WARNING: )(.*)$", out, re.M)
    what = m.group(1).strip()[:120] if m else "crash"
    if m and m.group(1).startswith("DATA RACE"):
        fr = re.search(r"github.com/sdcio/data-server/pkg/([A-Za-z0-9_/.()*]+)", out[m.start():])
        sig = "%s:data-race:%s" % (pid, (re.sub(r"\(0x.*$", "", fr.group(1)) if fr else "unknown").replace("(", "").replace(")", "").replace("*", ""))
        return _journal_violation(pid, out, m, sig, replaydir, shard, statsdir, "the race detector reported a data race while this case was running (halt_on_error)")
    frame = re.search(r"github.com/sdcio/data-server/pkg/([A-Za-z0-9_/.()*]+)", out[m.start():] if m else out)
    site = re.sub(r"\(0x.*$", "", frame.group(1)) if frame else "unknown"
    sig = "%s:process-crash:%s" % (pid, site.replace("(", "").replace(")", "").replace("*", ""))
    return _journal_violation(pid, out, m, sig, replaydir, shard, statsdir, "the worker process died while this case was running: " + what)


def _journal_violation(pid, out, m, sig, replaydir, shard, statsdir, headline):
    j = os.path.join(replaydir, "%s-inflight-%d.json" % (pid, shard))
    if not os.path.exists(j):
        j = os.path.join(replaydir, "%s-last-%d.json" % (pid, shard))
    doc = json.load(open(j))
    doc["sig"] = sig
    doc["detail"] = "%s\n%s" % (headline, out[m.start():m.start() + 3500] if m else "")
    dst = os.path.join(replaydir, "%s-%s.json" % (pid, re.sub(r"[^A-Za-z0-9_.-]", "_", sig)))
    json.dump(doc, open(dst, "w"))
    os.remove(j)
    for kf in json.load(open(os.path.join(ROOT, "known_findings.json")))["findings"]:
        if kf.get("status") == "open" and kf.get("property") == pid and re.fullmatch(kf["sig"], sig):
            print("KNOWN-FINDING: property=%s %s" % (pid, kf["what"]))
            return False
    # hand the violation to finish() through a stats file
    json.dump({"property": pid, "cases": 0, "violations": [{"sig": sig, "replay": dst, "detail": doc["detail"]}]},
              open(os.path.join(statsdir, "%s-crash-%d.json" % (pid, shard)), "w"))
    return True


def finish(pid, tier, seed, cfg, statsdir, t0, status, notes):
    agg = dict(cases=0, hashes=set(), labels={}, samples=[], excluded={}, discarded={}, violations=[], rule="", extra={}, known_seen={})
    for fn in sorted(os.listdir(statsdir)) if os.path.isdir(statsdir) else []:
        try:
            st = json.load(open(os.path.join(statsdir, fn)))
        except Exception:
            continue
        if st.get("property") != pid:
            continue
        agg["cases"] += st.get("cases", 0)
        agg["hashes"].update(st.get("nontrivial_hashes") or [])
        for k, v in (st.get("labels") or {}).items():
            agg["labels"][k] = agg["labels"].get(k, 0) + v
        for k, v in (st.get("excluded_by_known_finding") or {}).items():
            agg["excluded"][k] = agg["excluded"].get(k, 0) + v
        for k, v in (st.get("discarded") or {}).items():
            agg["discarded"][k] = agg["discarded"].get(k, 0) + v
        if len(agg["samples"]) < 5:
            agg["samples"].extend((st.get("samples") or [])[: 5 - len(agg["samples"])])
        agg["violations"].extend(st.get("violations") or [])
        agg["rule"] = st.get("rule") or agg["rule"]
        agg["known_seen"].update(st.get("known_seen") or {})
        for k, v in (st.get("extra") or {}).items():
            if isinstance(v, (int, float)) and isinstance(agg["extra"].get(k, 0), (int, float)):
                agg["extra"][k] = agg["extra"].get(k, 0) + v
            else:
                agg["extra"][k] = v
    if agg["violations"] and status != 2:
        status = 1
    if status == 0 and agg["cases"] == 0:
        status = 2
        notes.append("no cases were executed")
    seen = set()
    for v in agg["violations"]:
        if v["sig"] in seen:
            continue
        seen.add(v["sig"])
        if status == 1:
            print("VIOLATION property=%s replay=%s" % (pid, v["replay"]))
            print("  sig=%s" % v["sig"])
            print("  " + (v.get("detail") or "").replace("\n", "\n  ")[:3000])
    ev = {
        "property_id": pid,
        "tier": tier,
        "seed": seed,
        "level": cfg["level"],
        "coverage": {
            "evaluations": agg["cases"],
            "distinct_nontrivial": len(agg["hashes"]),
            "rule": agg["rule"],
            "samples": agg["samples"] or ["<none recorded>"],
            "labels": dict(sorted(agg["labels"].items())),
            "excluded_by_known_finding": agg["excluded"],
            "discarded": agg["discarded"],
            "known_findings_reproduced": agg["known_seen"],
            "notes": notes,
            **({"extra": agg["extra"]} if agg["extra"] else {}),
        },
        "assumptions": ASSUMPTIONS["*"] + ASSUMPTIONS.get(pid, []),
        "wall_s": round(time.time() - t0, 2),
        "violations": len(seen) if status == 1 else 0,
    }
    evdir = os.environ.get("VERIF_EVIDENCE_DIR") or os.path.join(ROOT, "evidence")  # redirected by tools/seedtest.py only
    os.makedirs(evdir, exist_ok=True)
    with open(os.path.join(evdir, pid + ".json"), "w") as f:
        json.dump(ev, f, indent=1)
    print("%s %s: exit=%d cases=%d nontrivial=%d wall=%.1fs %s" % (pid, tier, status, agg["cases"], len(agg["hashes"]), time.time() - t0, "; ".join(notes)))
    return status


def run_replay(pid, path):
    cfg = PROPS[pid]
    work = tempfile.mkdtemp(prefix="verif-replay-")
    try:
        try:
            race = ":data-race:" in json.load(open(path)).get("sig", "")
        except Exception:
            race = False
        b = build(cfg["pkg"], work, race=race)
        if b is None:
            return 2
        env = goenv()
        env.update(VERIF_REPLAY=os.path.abspath(path), VERIF_TMP=work)
        if race:
            env["GORACE"] = "halt_on_error=1"
        # a data race depends on the schedule: the stored case is repeated
        for attempt in range(25 if race else 1):
            p = subprocess.run([b, "-test.run", "^TestReplay$", "-test.timeout", "300s"], cwd=os.path.join(HARNESS, cfg["pkg"]), env=env,
                               stdout=subprocess.PIPE, stderr=subprocess.STDOUT, text=True)
            if p.returncode != 0:
                break
        print(p.stdout)
        if "REPLAY-FAIL" in p.stdout or ("panic: test timed out" not in p.stdout and re.search(r"^(panic: |fatal error: |WARNING: DATA RACE)", p.stdout, re.M)):
            print("VIOLATION property=%s replay=%s" % (pid, path))
            return 1
        return 0 if p.returncode == 0 else 2
    finally:
        shutil.rmtree(work, ignore_errors=True)


def main():
    if len(sys.argv) < 2:
        print(__doc__)
        return 2
    cmd = sys.argv[1]
    if cmd == "setup":
        work = tempfile.mkdtemp(prefix="verif-setup-")
        rc = 0
        try:
            for pid, cfg in sorted(PROPS.items()):
                races = {bool(r["race"]) for r in cfg["quick"]}
                for race in races:
                    if build(cfg["pkg"], work, race=race) is None:
                        rc = 2
        finally:
            shutil.rmtree(work, ignore_errors=True)
        print("setup done rc=%d" % rc)
        return rc
    if cmd == "check":
        return run_check(sys.argv[2], sys.argv[3] if len(sys.argv) > 3 else os.environ.get("VERIF_TIER", "quick"))
    if cmd == "replay":
        return run_replay(sys.argv[2], sys.argv[3])
    if cmd == "all":
        worst = 0
        for pid in sorted(PROPS):
            worst = max(worst, run_check(pid, sys.argv[2]))
        return worst
    print(__doc__)
    return 2


if __name__ == "__main__":
    sys.exit(main())
