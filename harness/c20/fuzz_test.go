package c20

import (
	"strings"
	"testing"
)

// Native coverage-guided fuzz targets (thorough tier). Each decodes the bytes
// into the structured arguments of one entry point and applies the same
// crash / hang oracle as the rapid property. A crasher is saved by the Go
// fuzzer under testdata/fuzz and is converted into a replay file by run.py.

func runCase(t *testing.T, c *Case) {
	_, _, f := prop.RunOne(c)
	if f != nil {
		if prop.KnownSig(f) {
			return
		}
		path := prop.SaveReplay(c, f)
		t.Fatalf("VIOLATION-CANDIDATE property=C20 sig=%s replay=%s\n%s", f.Sig, path, f.Detail)
	}
}

func FuzzPath(f *testing.F) {
	for _, s := range []string{"", "/", "a", "/plain/l1[name=a]/descr", "plain/l1[name=[x\\]]", "a:b", "origin:/a/b", "/a[b=c][d=e]/f", "[", "]", "a[", "a]", "a[b]", "a[=]", "a[b=]", "/../..", "a[b=c]]", "\\", "a\\[b", "/vm:plain/vm:l1[vm:name=current()/../x]"} {
		f.Add(s)
	}
	f.Fuzz(func(t *testing.T, s string) {
		runCase(t, &Case{Target: "path", PathStr: s})
	})
}

func FuzzJSONIntent(f *testing.F) {
	for _, s := range []string{`{}`, `{"plain":{"descr":"x"}}`, `{"plain":{"l1":[{"name":"a","mtu":1500}]}}`, `{"plain":{"tags":["a","b"]}}`, `{"types":{"d3":"1.5","emp":{}}}`,
		`{"plain":{"l1":{}}}`, `{"plain":{"l1":[1]}}`, `{"plain":null}`, `{"plain":{"tags":null}}`, `{"types":{"ll-str":[""]}}`, `{"verif-main:plain":{"verif-ext:extleaf":"x"}}`, `[]`, `"x"`, `1`, `{"plain":{"l2a":[{"a":"x"}]}}`, `{"chc":{"ca":"1","cb":"2"}}`} {
		f.Add(s, false)
		f.Add(s, true)
	}
	f.Fuzz(func(t *testing.T, doc string, ietf bool) {
		kind := "json"
		if ietf {
			kind = "json_ietf"
		}
		runCase(t, &Case{Target: "set", DryRun: true, Intents: []Intent{{Name: "own1", Prio: 7, Updates: []Upd{{Path: nil, Val: TV{Kind: kind, S: doc}}}}}})
	})
}

func FuzzXML(f *testing.F) {
	for _, s := range []string{`<data/>`, `<data><plain><descr>x</descr></plain></data>`, `<data><plain><l1><name>a</name><mtu>1</mtu></l1></plain></data>`, `<data><plain><l1><mtu>1</mtu></l1></plain></data>`,
		`<data><plain><l2a><a>x</a></l2a></plain></data>`, `<data><types><i8>x</i8><d3>1</d3><emp/></types></data>`, `<data><plain><tags>a</tags><tags>b</tags></plain></data>`, `<data><x/></data>`, `<data><plain>text<l1/></plain></data>`} {
		f.Add(s, false)
		f.Add(s, true)
	}
	f.Fuzz(func(t *testing.T, doc string, imp bool) {
		if !strings.Contains(doc, "<") {
			return
		}
		target := "xml"
		if imp {
			target = "import-xml"
		}
		runCase(t, &Case{Target: target, Doc: doc})
	})
}
