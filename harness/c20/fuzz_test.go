package c20

import (
	"errors"
	"strings"
	"testing"
)

// Native coverage-guided fuzz targets (thorough tier). Each decodes the bytes
// into the structured arguments of one entry point and applies the same
// crash / hang oracle as the rapid property. A crasher is saved by the Go
// fuzzer under testdata/fuzz and is converted into a replay file by run.py.

func runCase(t *testing.T, c *Case) {
	_, _, f := prop.RunOne(c)
	if f != nil {
		if prop.KnownSig(f) {
			return
		}
		path := prop.SaveReplay(c, f)
		t.Fatalf("VIOLATION-CANDIDATE property=C20 sig=%s replay=%s\n%s", f.Sig, path, f.Detail)
	}
}

func FuzzPath(f *testing.F) {
	for _, s := range []string{"", "/", "a", "/plain/l1[name=a]/descr", "plain/l1[name=[x\\]]", "a:b", "origin:/a/b", "/a[b=c][d=e]/f", "[", "]", "a[", "a]", "a[b]", "a[=]", "a[b=]", "/../..", "a[b=c]]", "\\", "a\\[b", "/vm:plain/vm:l1[vm:name=current()/../x]"} {
		f.Add(s)
	}
	f.Fuzz(func(t *testing.T, s string) {
		runCase(t, &Case{Target: "path", PathStr: s})
	})
}

func FuzzJSONIntent(f *testing.F) {
	for _, s := range []string{`{}`, `{"plain":{"descr":"x"}}`, `{"plain":{"l1":[{"name":"a","mtu":1500}]}}`, `{"plain":{"tags":["a","b"]}}`, `{"types":{"d3":"1.5","emp":{}}}`,
		`{"plain":{"l1":{}}}`, `{"plain":{"l1":[1]}}`, `{"plain":null}`, `{"plain":{"tags":null}}`, `{"types":{"ll-str":[""]}}`, `{"verif-main:plain":{"verif-ext:extleaf":"x"}}`, `[]`, `"x"`, `1`, `{"plain":{"l2a":[{"a":"x"}]}}`, `{"chc":{"ca":"1","cb":"2"}}`} {
		f.Add(s, false)
		f.Add(s, true)
	}
	f.Fuzz(func(t *testing.T, doc string, ietf bool) {
		kind := "json"
		if ietf {
			kind = "json_ietf"
		}
		runCase(t, &Case{Target: "set", DryRun: true, Intents: []Intent{{Name: "own1", Prio: 7, Updates: []Upd{{Path: nil, Val: TV{Kind: kind, S: doc}}}}}})
	})
}

func FuzzXML(f *testing.F) {
	for _, s := range []string{`<data/>`, `<data><plain><descr>x</descr></plain></data>`, `<data><plain><l1><name>a</name><mtu>1</mtu></l1></plain></data>`, `<data><plain><l1><mtu>1</mtu></l1></plain></data>`,
		`<data><plain><l2a><a>x</a></l2a></plain></data>`, `<data><types><i8>x</i8><d3>1</d3><emp/></types></data>`, `<data><plain><tags>a</tags><tags>b</tags></plain></data>`, `<data><x/></data>`, `<data><plain>text<l1/></plain></data>`} {
		f.Add(s, false)
		f.Add(s, true)
	}
	f.Fuzz(func(t *testing.T, doc string, imp bool) {
		if !strings.Contains(doc, "<") {
			return
		}
		target := "xml"
		if imp {
			target = "import-xml"
		}
		runCase(t, &Case{Target: target, Doc: doc})
	})
}

// FuzzDeviceNotification: a gNMI update as a device sends it - path string, value kind and payload - decoded into
// the structured case of the "notif" target (conversion, JSON expansion, key expansion).
func FuzzDeviceNotification(f *testing.F) {
	kinds := []string{"string", "json", "json_ietf", "ascii", "int", "uint", "bool", "decimal", "double", "bytes", "leaflist", "none", "nil", "empty", "proto", "any"}
	seeds := []struct {
		path string
		kind uint8
		val  string
	}{
		{"/plain/descr", 0, "x"}, {"/plain", 1, `{"descr":"x","l1":[{"name":"a","mtu":1}]}`}, {"/plain/l1[name=a]", 2, `{"mtu":"7","tags":["a"]}`}, {"/plain/tags", 1, `["a","b"]`},
		{"/plain/pres", 1, `{}`}, {"/plain/pres", 1, `{"inner":"x"}`}, {"/types/u64", 1, `18446744073709551615`}, {"/types/emp", 2, `[null]`}, {"/types/d3", 3, "1.5"},
		{"/plain/l1[name=a]/tags[tags=x]", 11, ""}, {"/plain/l1", 1, `[{"name":"a"}]`}, {"/plain/l2a[a=x]", 1, `{"b":"y","v":"z"}`}, {"/types/idr", 2, `"verif-ids:red"`},
		{"/plain/il[id=red]", 2, `{"id":"verif-ids:red","v":"x"}`}, {"/plain", 1, ``}, {"/plain", 1, `null`}, {"/plain/descr", 1, `{"a":1}`}, {"/state/counter", 5, "7"},
	}
	for _, s := range seeds {
		f.Add(s.path, s.kind, s.val, int64(0))
	}
	f.Fuzz(func(t *testing.T, path string, kind uint8, val string, num int64) {
		p, err := parseFuzzPath(path)
		if err != nil {
			return
		}
		k := kinds[int(kind)%len(kinds)]
		tv := TV{Kind: k, S: val, I: num, U: uint64(num), F: float64(num) / 8}
		if k == "leaflist" {
			tv.Elems = []TV{{Kind: "string", S: val}, {Kind: "int", I: num}}
		}
		runCase(t, &Case{Target: "notif", Updates: []Upd{{Path: p, Val: tv}}})
	})
}

var errBadFuzzPath = errors.New("bad fuzz path")

// parseFuzzPath: "/a/b[k=v]/c" into path elements (harness-side, deliberately simple: no escapes).
func parseFuzzPath(s string) ([]PElem, error) {
	var res []PElem
	for _, part := range strings.Split(strings.Trim(s, "/"), "/") {
		if part == "" {
			continue
		}
		pe := PElem{}
		if i := strings.Index(part, "["); i >= 0 {
			pe.Name = part[:i]
			pe.Keys = map[string]string{}
			for _, kv := range strings.Split(strings.TrimSuffix(part[i+1:], "]"), "][") {
				k, v, ok := strings.Cut(kv, "=")
				if !ok {
					return nil, errBadFuzzPath
				}
				pe.Keys[k] = v
			}
		} else {
			pe.Name = part
		}
		res = append(res, pe)
	}
	return res, nil
}
