// C20 — no request or device message crashes the server.
package c20

import (
	"github.com/sdcio/data-server/pkg/config"
	"github.com/sdcio/data-server/pkg/datastore/target"
	"github.com/sdcio/data-server/pkg/datastore"
	"github.com/openconfig/gnmi/proto/gnmi"
	"sync/atomic"
	"sync"
	"context"
	"encoding/json"
	"fmt"
	"os"
	"runtime/debug"
	"strings"
	"testing"
	"time"

	"github.com/beevik/etree"
	schemaClient "github.com/sdcio/data-server/pkg/datastore/clients/schema"
	"github.com/sdcio/data-server/pkg/datastore/target/netconf"
	nctypes "github.com/sdcio/data-server/pkg/datastore/target/netconf/types"
	"github.com/sdcio/data-server/pkg/tree"
	jsonImporter "github.com/sdcio/data-server/pkg/tree/importer/json"
	xmlImporter "github.com/sdcio/data-server/pkg/tree/importer/xml"
	"github.com/sdcio/data-server/pkg/utils"
	sdcpb "github.com/sdcio/sdc-protos/sdcpb"
	"google.golang.org/protobuf/types/known/anypb"
	"google.golang.org/protobuf/types/known/emptypb"
	"pgregory.net/rapid"
	"verif/harness/vlib"
)

func TestMain(m *testing.M) { vlib.Main(m) }

// ---------------------------------------------------------------- case data (plain, JSON-serialisable)

type PElem struct {
	Name string            `json:"n"`
	Keys map[string]string `json:"k,omitempty"`
}

type TV struct {
	Kind  string  `json:"kind"` // string int uint bool bytes decimal double float leaflist any json json_ietf ascii proto empty identityref none nil
	S     string  `json:"s,omitempty"`
	I     int64   `json:"i,omitempty"`
	U     uint64  `json:"u,omitempty"`
	F     float64 `json:"f,omitempty"`
	Elems []TV    `json:"elems,omitempty"`
}

type Upd struct {
	Path []PElem `json:"path"`
	Val  TV      `json:"val"`
}

type Intent struct {
	Name    string `json:"name"`
	Prio    int32  `json:"prio"`
	Delete  bool   `json:"delete,omitempty"`
	Orphan  bool   `json:"orphan,omitempty"`
	Updates []Upd  `json:"updates,omitempty"`
}

type Case struct {
	Target string `json:"target"` // path | set | get | notif | xml | import-xml | import-json
	// path
	PathStr string `json:"path_str,omitempty"`
	// set
	Intents []Intent `json:"intents,omitempty"`
	Replace *Intent  `json:"replace,omitempty"`
	DryRun  bool     `json:"dry_run,omitempty"`
	// set target: the transaction timeout of the request in seconds (the field is optional: 0 and negative values are
	// protobuf-valid) and what the client does with an accepted transaction afterwards
	TimeoutSec int64  `json:"timeout_sec,omitempty"`
	After      string `json:"after,omitempty"` // "" | cancel | confirm | cancel-cancel | confirm-cancel
	// get
	Paths    [][]PElem `json:"paths,omitempty"`
	Encoding int32     `json:"encoding,omitempty"`
	DataType int32     `json:"data_type,omitempty"`
	DSType   int32     `json:"ds_type,omitempty"`
	Owner    string    `json:"owner,omitempty"`
	// notif
	Updates []Upd     `json:"updates,omitempty"`
	Deletes [][]PElem `json:"deletes,omitempty"`
	// xml / import
	Doc string `json:"doc,omitempty"`
	// ncreply: what the NETCONF device answers to edit-config (document; "" = empty reply), whether commit / discard fail, the commit datastore
	Reply     string `json:"reply,omitempty"`
	CommitErr string `json:"commit_err,omitempty"`
	DiscardErr bool  `json:"discard_err,omitempty"`
	Running   bool   `json:"running,omitempty"`
}

// ---------------------------------------------------------------- generators

var names []string // every schema node name
var allNodes []*vlib.Node

func init() {
	var walk func(n *vlib.Node)
	seen := map[string]bool{}
	walk = func(n *vlib.Node) {
		for _, c := range n.Children {
			allNodes = append(allNodes, c)
			if !seen[c.Name] {
				seen[c.Name] = true
				names = append(names, c.Name)
			}
			walk(c)
		}
	}
	walk(vlib.Root)
}

var hostileStrings = []string{"", "a", "1", "-1", "1.5", "1.", ".5", "-", "99999999999999999999", "true", "nine", "a:b", ":", "vm:plain", "x y", "[", "]", "[a=b]", "a/b", "..", ".", "*", "\x00", "{}", "[]", "null", "é", "18446744073709551616", "-9223372036854775809", "1e5", "0x10", "+1"}

func genStr(t *rapid.T, label string) string {
	if rapid.IntRange(0, 4).Draw(t, label+"-host") != 0 {
		return rapid.SampledFrom(hostileStrings).Draw(t, label)
	}
	return rapid.StringMatching(`[a-c0-9:/\[\]=. _\-]{0,6}`).Draw(t, label)
}

// genPath: a valid instance path of a random node with "one step off" mutations.
func genPath(t *rapid.T, label string) []PElem {
	n := rapid.SampledFrom(allNodes).Draw(t, label+"-node")
	var chain []*vlib.Node
	for x := n; x != nil && x.Parent != nil; x = x.Parent {
		chain = append([]*vlib.Node{x}, chain...)
	}
	var p []PElem
	for _, c := range chain {
		pe := PElem{Name: c.Name}
		if c.Kind == vlib.KList {
			pe.Keys = map[string]string{}
			for _, k := range c.Keys {
				pe.Keys[k] = genStr(t, label+"-kv")
			}
		}
		p = append(p, pe)
	}
	// mutations
	nm := rapid.SampledFrom([]int{0, 0, 0, 1, 1, 2}).Draw(t, label+"-nmut")
	for i := 0; i < nm; i++ {
		if len(p) == 0 {
			p = append(p, PElem{Name: genStr(t, label+"-nm")})
			continue
		}
		idx := rapid.IntRange(0, len(p)-1).Draw(t, label+"-mi")
		switch rapid.IntRange(0, 8).Draw(t, label+"-mut") {
		case 0: // drop a key
			for k := range p[idx].Keys {
				delete(p[idx].Keys, k)
				break
			}
		case 1: // foreign key
			if p[idx].Keys == nil {
				p[idx].Keys = map[string]string{}
			}
			p[idx].Keys[rapid.SampledFrom(append(names, "", "x")).Draw(t, label+"-fk")] = genStr(t, label+"-fv")
		case 2: // unknown / hostile element name
			p[idx].Name = genStr(t, label+"-un")
		case 3: // truncate
			p = p[:idx]
		case 4: // append an element
			p = append(p, PElem{Name: rapid.SampledFrom(append(names, "", "..", ".", "x")).Draw(t, label+"-ap")})
		case 5: // prefix the name
			p[idx].Name = rapid.SampledFrom([]string{"vm:", "verif-main:", ":", "x:"}).Draw(t, label+"-pf") + p[idx].Name
		case 6: // remove all keys
			p[idx].Keys = nil
		case 7: // swap with another node name
			p[idx].Name = rapid.SampledFrom(names).Draw(t, label+"-sw")
		case 8: // duplicate element
			p = append(p[:idx+1], p[idx:]...)
		}
	}
	return p
}

var tvKinds = []string{"string", "string", "string", "int", "uint", "bool", "bytes", "decimal", "double", "float", "leaflist", "any", "json", "json_ietf", "ascii", "proto", "empty", "identityref", "none", "nil"}

func genTV(t *rapid.T, label string, depth int) TV {
	k := rapid.SampledFrom(tvKinds).Draw(t, label+"-kind")
	tv := TV{Kind: k}
	switch k {
	case "string", "ascii", "identityref":
		tv.S = genStr(t, label+"-s")
	case "bytes", "proto", "any":
		tv.S = genStr(t, label+"-b")
	case "int":
		tv.I = rapid.SampledFrom([]int64{0, 1, -1, 127, 128, -129, 1 << 31, -(1 << 63), 1<<63 - 1}).Draw(t, label+"-i")
	case "uint":
		tv.U = rapid.SampledFrom([]uint64{0, 1, 255, 256, 65536, 1 << 32, 1 << 63, 1<<64 - 1}).Draw(t, label+"-u")
	case "bool":
		tv.I = int64(rapid.IntRange(0, 1).Draw(t, label+"-bo"))
	case "decimal":
		tv.I = rapid.SampledFrom([]int64{0, 15, -15, 1<<63 - 1, -(1 << 63)}).Draw(t, label+"-dd")
		tv.U = uint64(rapid.SampledFrom([]int{0, 1, 3, 18, 19, 4000000000}).Draw(t, label+"-dp"))
	case "double", "float":
		tv.F = rapid.SampledFrom([]float64{0, 1.5, -1e308, 1e-320}).Draw(t, label+"-f")
	case "json", "json_ietf":
		tv.S = genJSONText(t, label+"-j", nil)
	case "leaflist":
		if depth < 2 {
			n := rapid.IntRange(0, 3).Draw(t, label+"-lln")
			for i := 0; i < n; i++ {
				tv.Elems = append(tv.Elems, genTV(t, label+"-e", depth+1))
			}
		}
	}
	return tv
}

// genJSONValue: JSON value of arbitrary shape whose member names are schema names of node n's subtree (or hostile).
func genJSONValue(t *rapid.T, label string, n *vlib.Node, depth int) any {
	kind := rapid.IntRange(0, 9).Draw(t, label+"-jk")
	if depth >= 4 && kind < 5 {
		kind = 5
	}
	switch kind {
	case 0, 1, 2: // object
		m := map[string]any{}
		cnt := rapid.IntRange(0, 4).Draw(t, label+"-jn")
		for i := 0; i < cnt; i++ {
			var child *vlib.Node
			name := ""
			if n != nil && len(n.Children) > 0 && rapid.IntRange(0, 5).Draw(t, label+"-known") != 0 {
				child = rapid.SampledFrom(n.Children).Draw(t, label+"-child")
				name = child.Name
				if rapid.IntRange(0, 6).Draw(t, label+"-pfx") == 0 {
					name = rapid.SampledFrom([]string{"verif-main:", "verif-ext:", "x:", ":"}).Draw(t, label+"-pf") + name
				}
			} else {
				name = rapid.SampledFrom(append(names, "", "x", "a:b")).Draw(t, label+"-nm")
			}
			m[name] = genJSONValue(t, label, child, depth+1)
		}
		return m
	case 3, 4: // array
		cnt := rapid.IntRange(0, 3).Draw(t, label+"-an")
		arr := []any{}
		for i := 0; i < cnt; i++ {
			arr = append(arr, genJSONValue(t, label, n, depth+1))
		}
		return arr
	case 5:
		return genStr(t, label+"-js")
	case 6:
		return json.Number(rapid.SampledFrom([]string{"0", "1", "-1", "1.5", "300", "18446744073709551616", "1e5"}).Draw(t, label+"-num"))
	case 7:
		return rapid.Bool().Draw(t, label+"-jb")
	case 8:
		return nil
	}
	return map[string]any{}
}

func genJSONText(t *rapid.T, label string, n *vlib.Node) string {
	if rapid.IntRange(0, 9).Draw(t, label+"-raw") == 0 {
		return rapid.SampledFrom([]string{"", "{", "[1,", "nul", "\"", "{\"a\":}", "[[[[[[[[[[[[]]]]]]]]]]]]", "1", "\"x\"", "null", "{\"plain\":null}", "{\"plain\":[]}", "{\"plain\":{\"l1\":{}}}", "{\"plain\":{\"l1\":[1]}}", "{\"plain\":{\"l1\":[{}]}}", "{\"plain\":{\"tags\":[\"\"]}}", "{\"types\":{\"ll-str\":[\"\"]}}", "{\"types\":{\"emp\":5}}"}).Draw(t, label+"-rawv")
	}
	if n == nil {
		n = vlib.Root
	}
	b, _ := json.Marshal(genJSONValue(t, label, n, 0))
	return string(b)
}

func genUpd(t *rapid.T, label string) Upd {
	u := Upd{Path: genPath(t, label+"-p")}
	// often a JSON value against a container
	if rapid.IntRange(0, 2).Draw(t, label+"-jsonish") == 0 {
		var names []string
		for _, pe := range u.Path {
			names = append(names, pe.Name)
		}
		n := vlib.Lookup(names...)
		k := rapid.SampledFrom([]string{"json", "json_ietf"}).Draw(t, label+"-jk")
		u.Val = TV{Kind: k, S: genJSONText(t, label+"-jt", n)}
		return u
	}
	u.Val = genTV(t, label+"-v", 0)
	return u
}

func genIntent(t *rapid.T, label string) Intent {
	in := Intent{
		Name: rapid.SampledFrom([]string{"own0", "own1", "", "a b", "running", "default", "replace", "x,y", strings.Repeat("n", 300)}).Draw(t, label+"-name"),
		Prio: rapid.SampledFrom([]int32{0, 1, 5, 10, -1, 2147483647, -2147483648, 2147483547}).Draw(t, label+"-prio"),
	}
	switch rapid.IntRange(0, 5).Draw(t, label+"-flags") {
	case 0:
		in.Delete = true
	case 1:
		in.Delete, in.Orphan = true, true
	case 2:
		in.Orphan = true
	}
	n := rapid.IntRange(0, 4).Draw(t, label+"-nupd")
	for i := 0; i < n; i++ {
		in.Updates = append(in.Updates, genUpd(t, label+"-u"))
	}
	return in
}

func genXML(t *rapid.T, label string) string {
	if rapid.IntRange(0, 9).Draw(t, label+"-raw") == 0 {
		return rapid.SampledFrom([]string{"", "<a/>", "<data/>", "<data><plain/></data>", "<data><plain><l1/></plain></data>", "<data><plain><l1><descr>x</descr></l1></plain></data>", "<data><plain><l2a><a>x</a></l2a></plain></data>", "<data><types><i8>x</i8></types></data>", "<data><types><d3></d3></types></data>", "<data><x:plain xmlns:x=\"u\"/></data>"}).Draw(t, label+"-rawv")
	}
	doc := etree.NewDocument()
	root := doc.CreateElement(rapid.SampledFrom([]string{"data", "config", "rpc-reply"}).Draw(t, label+"-root"))
	var build func(parent *etree.Element, n *vlib.Node, depth int)
	build = func(parent *etree.Element, n *vlib.Node, depth int) {
		cnt := rapid.IntRange(0, 4).Draw(t, label+"-cnt")
		for i := 0; i < cnt; i++ {
			var child *vlib.Node
			name := ""
			if n != nil && len(n.Children) > 0 && rapid.IntRange(0, 6).Draw(t, label+"-known") != 0 {
				child = rapid.SampledFrom(n.Children).Draw(t, label+"-child")
				name = child.Name
			} else {
				name = rapid.SampledFrom(append(names, "x", "ns:plain")).Draw(t, label+"-nm")
			}
			e := parent.CreateElement(name)
			if rapid.IntRange(0, 5).Draw(t, label+"-attr") == 0 {
				e.CreateAttr(rapid.SampledFrom([]string{"xmlns", "operation", "nc:operation", "xmlns:nc"}).Draw(t, label+"-an"), genStr(t, label+"-av"))
			}
			leafish := child != nil && child.IsLeafish()
			if leafish || depth >= 4 || rapid.IntRange(0, 3).Draw(t, label+"-text") == 0 {
				e.SetText(genStr(t, label+"-txt"))
				if !leafish && rapid.Bool().Draw(t, label+"-mixed") {
					build(e, child, depth+1)
				}
				continue
			}
			build(e, child, depth+1)
		}
	}
	build(root, vlib.Root, 0)
	s, _ := doc.WriteToString()
	return s
}

// genNCReply: an rpc-reply as a NETCONF device may send it for an edit-config: ok, rpc-errors of any severity with
// any subset of the optional children (RFC 6241 4.3: only error-type, error-tag and error-severity are mandatory),
// prefixed element names, text where elements are expected, no document at all.
func genNCReply(t *rapid.T) string {
	switch rapid.IntRange(0, 11).Draw(t, "reply-kind") {
	case 0:
		return ""
	case 1:
		return "<rpc-reply><ok/></rpc-reply>"
	case 2:
		return rapid.SampledFrom([]string{"<rpc-reply/>", "<ok/>", "<rpc-error/>", "<rpc-reply><rpc-error/></rpc-reply>", "<rpc-reply>text</rpc-reply>",
			"<rpc-reply><rpc-error><error-severity/></rpc-error></rpc-reply>", "<rpc-reply><rpc-error><error-severity>warning</error-severity></rpc-error><ok/></rpc-reply>",
			"<nc:rpc-reply xmlns:nc=\"urn:ietf:params:xml:ns:netconf:base:1.0\"><nc:rpc-error><nc:error-severity>error</nc:error-severity></nc:rpc-error></nc:rpc-reply>"}).Draw(t, "reply-raw")
	}
	doc := etree.NewDocument()
	pfx := rapid.SampledFrom([]string{"", "", "", "nc:"}).Draw(t, "reply-prefix")
	root := doc.CreateElement(pfx + "rpc-reply")
	if pfx != "" {
		root.CreateAttr("xmlns:nc", "urn:ietf:params:xml:ns:netconf:base:1.0")
	}
	for i, n := 0, rapid.IntRange(0, 3).Draw(t, "reply-nerr"); i < n; i++ {
		e := root.CreateElement(pfx + "rpc-error")
		for _, child := range []string{"error-type", "error-tag", "error-severity", "error-app-tag", "error-path", "error-message", "error-info"} {
			if rapid.IntRange(0, 2).Draw(t, "reply-has-"+child) == 0 {
				continue
			}
			c := e.CreateElement(pfx + child)
			switch child {
			case "error-severity":
				c.SetText(rapid.SampledFrom([]string{"warning", "warning", "error", "error", "", "WARNING", "info"}).Draw(t, "reply-sev"))
			case "error-info":
				if rapid.Bool().Draw(t, "reply-info-child") {
					c.CreateElement("bad-element").SetText(genStr(t, "reply-bad"))
				}
			default:
				if rapid.IntRange(0, 4).Draw(t, "reply-empty-"+child) != 0 {
					c.SetText(genStr(t, "reply-"+child))
				}
			}
			if rapid.IntRange(0, 9).Draw(t, "reply-dup-"+child) == 0 {
				e.CreateElement(pfx + child).SetText(genStr(t, "reply-dup"))
			}
		}
	}
	if rapid.Bool().Draw(t, "reply-ok") {
		root.CreateElement(pfx + "ok")
	}
	r, _ := doc.WriteToString()
	return r
}

func gen(t *rapid.T) *Case {
	c := &Case{Target: rapid.SampledFrom([]string{"path", "set", "set", "set", "get", "notif", "notif", "devsync", "xml", "import-xml", "import-json", "ncreply"}).Draw(t, "target")}
	switch c.Target {
	case "ncreply":
		c.Reply = genNCReply(t)
		c.CommitErr = rapid.SampledFrom([]string{"", "", "", "operation failed: <rpc-error><error-severity>error</error-severity></rpc-error>", "EOF", "x"}).Draw(t, "commit-err")
		c.DiscardErr = rapid.IntRange(0, 3).Draw(t, "discard-err") == 0
		c.Running = rapid.Bool().Draw(t, "commit-running")
	case "path":
		if rapid.Bool().Draw(t, "from-struct") {
			c.PathStr = "/" + utils.ToXPath(toPath(genPath(t, "ps")), false)
		} else {
			c.PathStr = rapid.StringMatching(`[a-c:/\[\]=. \\*]{0,24}`).Draw(t, "pathstr")
		}
	case "set":
		n := rapid.IntRange(0, 3).Draw(t, "nintents")
		for i := 0; i < n; i++ {
			c.Intents = append(c.Intents, genIntent(t, "intent"))
		}
		if rapid.IntRange(0, 4).Draw(t, "has-replace") == 0 {
			r := genIntent(t, "replace")
			c.Replace = &r
		}
		c.DryRun = rapid.Bool().Draw(t, "dry")
		c.TimeoutSec = rapid.SampledFrom([]int64{3600, 3600, 0, -1, 1 << 40}).Draw(t, "timeout-sec")
		c.After = rapid.SampledFrom([]string{"", "cancel", "confirm", "cancel-cancel", "confirm-cancel"}).Draw(t, "after")
	case "get":
		n := rapid.IntRange(0, 3).Draw(t, "npaths")
		for i := 0; i < n; i++ {
			c.Paths = append(c.Paths, genPath(t, "gp"))
		}
		c.Encoding = int32(rapid.IntRange(0, 5).Draw(t, "enc"))
		c.DataType = int32(rapid.IntRange(0, 3).Draw(t, "dt"))
		c.DSType = int32(rapid.IntRange(0, 3).Draw(t, "dst"))
		c.Owner = rapid.SampledFrom([]string{"", "own0", "x"}).Draw(t, "owner")
	case "notif", "devsync":
		n := rapid.IntRange(0, 4).Draw(t, "nupd")
		for i := 0; i < n; i++ {
			c.Updates = append(c.Updates, genUpd(t, "nu"))
		}
		d := rapid.IntRange(0, 2).Draw(t, "ndel")
		for i := 0; i < d; i++ {
			c.Deletes = append(c.Deletes, genPath(t, "nd"))
		}
	case "xml", "import-xml":
		c.Doc = genXML(t, "xml")
	case "import-json":
		c.Doc = genJSONText(t, "ij", vlib.Root)
	}
	return c
}

// ---------------------------------------------------------------- conversion to protobuf

func toPath(p []PElem) *sdcpb.Path {
	sp := &sdcpb.Path{}
	for _, e := range p {
		pe := &sdcpb.PathElem{Name: e.Name}
		if e.Keys != nil {
			pe.Key = map[string]string{}
			for k, v := range e.Keys {
				pe.Key[k] = v
			}
		}
		sp.Elem = append(sp.Elem, pe)
	}
	return sp
}

func toTV(v TV) *sdcpb.TypedValue {
	switch v.Kind {
	case "nil":
		return nil
	case "none":
		return &sdcpb.TypedValue{}
	case "string":
		return &sdcpb.TypedValue{Value: &sdcpb.TypedValue_StringVal{StringVal: v.S}}
	case "ascii":
		return &sdcpb.TypedValue{Value: &sdcpb.TypedValue_AsciiVal{AsciiVal: v.S}}
	case "identityref":
		return &sdcpb.TypedValue{Value: &sdcpb.TypedValue_IdentityrefVal{IdentityrefVal: &sdcpb.IdentityRef{Value: v.S}}}
	case "bytes":
		return &sdcpb.TypedValue{Value: &sdcpb.TypedValue_BytesVal{BytesVal: []byte(v.S)}}
	case "proto":
		return &sdcpb.TypedValue{Value: &sdcpb.TypedValue_ProtoBytes{ProtoBytes: []byte(v.S)}}
	case "any":
		return &sdcpb.TypedValue{Value: &sdcpb.TypedValue_AnyVal{AnyVal: &anypb.Any{TypeUrl: "x", Value: []byte(v.S)}}}
	case "int":
		return &sdcpb.TypedValue{Value: &sdcpb.TypedValue_IntVal{IntVal: v.I}}
	case "uint":
		return &sdcpb.TypedValue{Value: &sdcpb.TypedValue_UintVal{UintVal: v.U}}
	case "bool":
		return &sdcpb.TypedValue{Value: &sdcpb.TypedValue_BoolVal{BoolVal: v.I != 0}}
	case "decimal":
		return &sdcpb.TypedValue{Value: &sdcpb.TypedValue_DecimalVal{DecimalVal: &sdcpb.Decimal64{Digits: v.I, Precision: uint32(v.U)}}}
	case "double":
		return &sdcpb.TypedValue{Value: &sdcpb.TypedValue_DoubleVal{DoubleVal: v.F}}
	case "float":
		return &sdcpb.TypedValue{Value: &sdcpb.TypedValue_FloatVal{FloatVal: float32(v.F)}}
	case "json":
		return &sdcpb.TypedValue{Value: &sdcpb.TypedValue_JsonVal{JsonVal: []byte(v.S)}}
	case "json_ietf":
		return &sdcpb.TypedValue{Value: &sdcpb.TypedValue_JsonIetfVal{JsonIetfVal: []byte(v.S)}}
	case "empty":
		return &sdcpb.TypedValue{Value: &sdcpb.TypedValue_EmptyVal{EmptyVal: &emptypb.Empty{}}}
	case "leaflist":
		arr := &sdcpb.ScalarArray{}
		for _, e := range v.Elems {
			arr.Element = append(arr.Element, toTV(e))
		}
		return &sdcpb.TypedValue{Value: &sdcpb.TypedValue_LeaflistVal{LeaflistVal: arr}}
	}
	return nil
}

var syncHookMu sync.Mutex

// toGNMITV renders the value in the gNMI typed-value kinds a device can send.
func toGNMITV(v TV) *gnmi.TypedValue {
	switch v.Kind {
	case "nil":
		return nil
	case "none":
		return &gnmi.TypedValue{}
	case "string", "identityref":
		return &gnmi.TypedValue{Value: &gnmi.TypedValue_StringVal{StringVal: v.S}}
	case "ascii":
		return &gnmi.TypedValue{Value: &gnmi.TypedValue_AsciiVal{AsciiVal: v.S}}
	case "bytes":
		return &gnmi.TypedValue{Value: &gnmi.TypedValue_BytesVal{BytesVal: []byte(v.S)}}
	case "proto":
		return &gnmi.TypedValue{Value: &gnmi.TypedValue_ProtoBytes{ProtoBytes: []byte(v.S)}}
	case "any":
		return &gnmi.TypedValue{Value: &gnmi.TypedValue_AnyVal{AnyVal: &anypb.Any{TypeUrl: "x", Value: []byte(v.S)}}}
	case "int":
		return &gnmi.TypedValue{Value: &gnmi.TypedValue_IntVal{IntVal: v.I}}
	case "uint":
		return &gnmi.TypedValue{Value: &gnmi.TypedValue_UintVal{UintVal: v.U}}
	case "bool", "empty":
		return &gnmi.TypedValue{Value: &gnmi.TypedValue_BoolVal{BoolVal: v.I != 0}}
	case "decimal":
		return &gnmi.TypedValue{Value: &gnmi.TypedValue_DecimalVal{DecimalVal: &gnmi.Decimal64{Digits: v.I, Precision: uint32(v.U)}}}
	case "double":
		return &gnmi.TypedValue{Value: &gnmi.TypedValue_DoubleVal{DoubleVal: v.F}}
	case "float":
		return &gnmi.TypedValue{Value: &gnmi.TypedValue_FloatVal{FloatVal: float32(v.F)}}
	case "json":
		return &gnmi.TypedValue{Value: &gnmi.TypedValue_JsonVal{JsonVal: []byte(v.S)}}
	case "json_ietf":
		return &gnmi.TypedValue{Value: &gnmi.TypedValue_JsonIetfVal{JsonIetfVal: []byte(v.S)}}
	case "leaflist":
		arr := &gnmi.ScalarArray{}
		for _, e := range v.Elems {
			arr.Element = append(arr.Element, toGNMITV(e))
		}
		return &gnmi.TypedValue{Value: &gnmi.TypedValue_LeaflistVal{LeaflistVal: arr}}
	}
	return nil
}

func toIntent(in Intent) *sdcpb.TransactionIntent {
	r := &sdcpb.TransactionIntent{Intent: in.Name, Priority: in.Prio, Delete: in.Delete, Orphan: in.Orphan}
	for _, u := range in.Updates {
		r.Update = append(r.Update, &sdcpb.Update{Path: toPath(u.Path), Value: toTV(u.Val)})
	}
	return r
}

// ---------------------------------------------------------------- execution

func harnessErr(err error) {
	fmt.Fprintf(os.Stderr, "HARNESS-ERROR %v\n", err)
	os.Exit(2)
}

var prop = vlib.Prop[*Case]{
	ID: "C20",
	Rule: "case = one input for one of 8 in-process entry points: path strings (ParsePath, StripPathElemPrefix, CompletePathFromString, NormalizedAbsPath, ToXPath), TransactionSet requests (intent conversion + TransactionSet on a real, pre-populated datastore: any schema node x any typed-value kind incl. absent / mismatched / nested leaf-lists, JSON / JSON_IETF documents of arbitrary shape against every container, paths with dropped / foreign / misplaced keys and unknown elements, hostile names and priorities, replace intents), GetData requests, gNMI notifications (ConvertNotificationTypedValues + expansion; and as gnmi.Notification through ToSchemaNotification into the real Datastore.Sync loop / storeSyncMsg), NETCONF XML (XML2sdcpbConfigAdapter.Transform) and XML / JSON tree import; generators are structure-aware with 'one step off valid' mutations; " +
		"oracle = the call returns a value or an error: a panic (recovered, signature = first data-server frame) or a call exceeding 10 s is a violation, errors never are; " +
		"non-trivial = the input passed the first schema lookup (reached typed logic rather than dying in path validation); distinct = distinct case JSON",
	Gen:  gen,
	Exec: Exec,
}

// withDeadline runs f and reports a hang if it does not return within 10 s.
func withDeadline(what string, f func()) *vlib.Failure {
	done := make(chan *vlib.Failure, 1)
	go func() {
		defer func() {
			if r := recover(); r != nil {
				done <- vlib.PanicFailure("C20", r, debug.Stack())
				return
			}
			done <- nil
		}()
		f()
	}()
	select {
	case fl := <-done:
		return fl
	case <-time.After(10 * time.Second):
		return vlib.Failf("C20:hang:"+what, "%s did not return within 10 s", what)
	}
}

func knownFirst(p *sdcpb.Path) bool {
	if len(p.GetElem()) == 0 {
		return true
	}
	return vlib.Root.Child(p.GetElem()[0].GetName()) != nil
}

var baseEnv *vlib.HistEnv

// datastore with some content so that loads, merges and deletes have something to work on
func populated(ctx context.Context) *vlib.HistEnv {
	env := vlib.MustEnv()
	init := []vlib.LeafSel{{T: 0, V: 0}, {T: 15, K: []int{0}, V: 1}, {T: 24, K: []int{0, 1}, V: 0}}
	hc := &vlib.HistCase{Universe: "plain", Palette: []string{"a", "b", "a/b"}, Initial: init}
	h, err := vlib.NewHistEnv(ctx, env, hc, vlib.HistEnvOpts{})
	if err != nil {
		harnessErr(err)
	}
	st := vlib.Step{Intents: []vlib.IntentOp{{Owner: 0, Kind: "set", PrioIx: 1, Form: "typed", Leaves: []vlib.LeafSel{{T: 1, V: 0}, {T: 16, K: []int{0}, V: 1}, {T: 9, V: 0}}, Frags: []int{vlib.FragmentIndex("svc-a"), vlib.FragmentIndex("grp-ok")}}}}
	if res := h.RunStep(st); !res.OK {
		harnessErr(fmt.Errorf("populate refused: %s", res.ErrText()))
	}
	return h
}

func Exec(c *Case) (nontrivial bool, labels []string, fail *vlib.Failure) {
	ctx, cancel := context.WithTimeout(context.Background(), 20*time.Second)
	defer cancel()
	env := vlib.MustEnv()
	lab := []string{"target-" + c.Target}
	switch c.Target {
	case "path":
		f := withDeadline("path-functions", func() {
			p, err := utils.ParsePath(c.PathStr)
			if err == nil {
				nontrivial = len(p.GetElem()) > 0
				_ = utils.ToXPath(p, false)
				_ = utils.ToXPath(p, true)
				_ = utils.ToStrings(p, true, false)
				_, _ = utils.CompletePath(nil, p)
			}
			_, _ = utils.StripPathElemPrefix(c.PathStr)
			_, _ = utils.CompletePathFromString(c.PathStr)
			_, _ = utils.NormalizedAbsPath(c.PathStr, []*sdcpb.PathElem{{Name: "plain"}, {Name: "l1", Key: map[string]string{"name": "a"}}})
		})
		return nontrivial, lab, f
	case "set":
		h := populated(ctx)
		defer h.DS.Stop()
		var reqs []*sdcpb.TransactionIntent
		for _, in := range c.Intents {
			reqs = append(reqs, toIntent(in))
			for _, u := range in.Updates {
				if knownFirst(toPath(u.Path)) {
					nontrivial = true
				}
				lab = append(lab, "value-"+u.Val.Kind)
			}
		}
		var rep *sdcpb.TransactionIntent
		if c.Replace != nil {
			rep = toIntent(*c.Replace)
			lab = append(lab, "with-replace")
		}
		f := withDeadline("TransactionSet", func() {
			if c.TimeoutSec != 0 || c.After != "" {
				h.Timeout = time.Duration(c.TimeoutSec) * time.Second
			}
			_, err := h.SetRequest("fz", reqs, rep, c.DryRun)
			if err != nil {
				lab = append(lab, "set-error")
			} else {
				lab = append(lab, "set-ok")
				// what a client may do next with the transaction id (whatever the answers are, nothing may crash)
				for _, a := range strings.Split(c.After, "-") {
					switch a {
					case "cancel":
						_ = h.DS.TransactionCancel(ctx, "fz")
					case "confirm":
						_ = h.DS.TransactionConfirm(ctx, "fz")
					}
				}
				if c.TimeoutSec <= 1 {
					lab = append(lab, "short-or-nonpositive-timeout")
				}
			}
			h.FreeSlot("fz")
		})
		return nontrivial, lab, f
	case "get":
		h := baseDS(ctx)
		req := &sdcpb.GetDataRequest{Name: h.DSName, Encoding: sdcpb.Encoding(c.Encoding), DataType: sdcpb.DataType(c.DataType),
			Datastore: &sdcpb.DataStore{Type: sdcpb.Type(c.DSType), Owner: c.Owner}}
		for _, p := range c.Paths {
			req.Path = append(req.Path, toPath(p))
			if knownFirst(toPath(p)) {
				nontrivial = true
			}
		}
		f := withDeadline("GetData", func() {
			ch := make(chan *sdcpb.GetDataResponse)
			go func() {
				for range ch {
				}
			}()
			if err := h.DS.Get(ctx, req, ch); err != nil {
				lab = append(lab, "get-error")
			} else {
				lab = append(lab, "get-ok")
			}
		})
		return nontrivial, lab, f
	case "notif":
		scb := schemaClient.NewSchemaClientBound(vlib.SchemaRef(), env.SchemaClient)
		n := &sdcpb.Notification{}
		for _, u := range c.Updates {
			n.Update = append(n.Update, &sdcpb.Update{Path: toPath(u.Path), Value: toTV(u.Val)})
			if knownFirst(toPath(u.Path)) {
				nontrivial = true
			}
			lab = append(lab, "value-"+u.Val.Kind)
		}
		for _, d := range c.Deletes {
			n.Delete = append(n.Delete, toPath(d))
		}
		f := withDeadline("ConvertNotification", func() {
			conv := utils.NewConverter(scb)
			cn, err := conv.ConvertNotificationTypedValues(ctx, n)
			if err != nil {
				lab = append(lab, "notif-error")
				return
			}
			lab = append(lab, "notif-ok")
			for _, u := range cn.GetUpdate() {
				_, _ = conv.ExpandUpdateKeysAsLeaf(ctx, u)
				_, _ = env.Cache.NewUpdate(u)
			}
		})
		return nontrivial, lab, f
	case "devsync":
		// the message as a gNMI device sends it: gnmi.Notification -> ToSchemaNotification (FromGNMITypedValue for every
		// value kind) -> the real Datastore.Sync loop and storeSyncMsg (conversion, key expansion, cache writes)
		gn := &gnmi.Notification{Timestamp: 1}
		for _, u := range c.Updates {
			gn.Update = append(gn.Update, &gnmi.Update{Path: utils.ToGNMIPath(toPath(u.Path)), Val: toGNMITV(u.Val)})
			if knownFirst(toPath(u.Path)) {
				nontrivial = true
			}
			lab = append(lab, "value-"+u.Val.Kind)
		}
		for _, d := range c.Deletes {
			gn.Delete = append(gn.Delete, utils.ToGNMIPath(toPath(d)))
		}
		f := withDeadline("DeviceMessageThroughSync", func() {
			sctx, cancel := context.WithCancel(ctx)
			defer cancel()
			dev := vlib.NewDevice(nil)
			dev.SyncFeed = make(chan *target.SyncUpdate)
			name := env.FreshName("c20sync")
			ds := env.NewDatastore(sctx, dev, vlib.DSOpts{Name: name, Sync: &config.Sync{Validate: len(c.Deletes)%2 == 0, Buffer: 10, WriteWorkers: 2}})
			defer ds.Stop()
			var done atomic.Int32
			syncHookMu.Lock()
			datastore.VerifSyncMsgDone = func(n string) {
				if n == name {
					done.Add(1)
				}
			}
			syncHookMu.Unlock()
			go ds.Sync(sctx)
			sn := utils.ToSchemaNotification(gn)
			for _, su := range []*target.SyncUpdate{{Start: true, Force: true}, {Update: sn}, {End: true}, {Update: sn}} {
				select {
				case dev.SyncFeed <- su:
				case <-time.After(8 * time.Second):
					return
				}
			}
			for i := 0; i < 8000 && done.Load() < 2; i++ {
				time.Sleep(time.Millisecond)
			}
			if done.Load() < 2 {
				panic(fmt.Sprintf("the sync loop did not finish the device message within 8 s (%d of 2 done)", done.Load()))
			}
		})
		return nontrivial, lab, f
	case "ncreply":
		// one valid change through the REAL NETCONF target; the driver answers with the generated reply
		scb := schemaClient.NewSchemaClientBound(vlib.SchemaRef(), env.SchemaClient)
		drv := &replyDriver{c: c}
		commit := "candidate"
		if c.Running {
			commit = "running"
		}
		sbi := &config.SBI{Type: "netconf", Address: "127.0.0.1", Port: 1, ConnectRetry: 24 * time.Hour, Timeout: time.Second,
			NetconfOptions: &config.SBINetconfOptions{CommitDatastore: commit}}
		h, err := vlib.NewHistEnv(ctx, env, &vlib.HistCase{Universe: "plain", Palette: []string{"a", "b", "c"}}, vlib.HistEnvOpts{WrapTarget: func(dev *vlib.Device) target.Target {
			return &ncOnly{Target: target.NewNCTargetWithDriver("c20nc", sbi, scb, drv), dev: dev}
		}})
		if err != nil {
			harnessErr(err)
		}
		defer h.DS.Stop()
		nontrivial = strings.Contains(c.Reply, "rpc-error")
		f := withDeadline("TransactionSet over the NETCONF target", func() {
			ri := vlib.ResolvedIntent{Name: "own0", Kind: "set", Prio: 10, Form: "typed", Explicit: vlib.Conf{"/plain/descr": "v1", "/plain/l1[name=a]/mtu": "1500"}}
			req, err := vlib.BuildIntentRequest(ri)
			if err != nil {
				harnessErr(err)
			}
			rsp, err := h.SetRequest("t1", []*sdcpb.TransactionIntent{req}, nil, false)
			switch {
			case err != nil || len(vlib.IntentErrorsOf(rsp)) > 0:
				lab = append(lab, "nc-set-refused")
			default:
				lab = append(lab, "nc-set-accepted")
				_ = h.DS.TransactionCancel(ctx, "t1")
			}
		})
		lab = append(lab, fmt.Sprintf("nc-driver-calls-%d", min(drv.calls, 4)))
		return nontrivial, lab, f
	case "xml":
		scb := schemaClient.NewSchemaClientBound(vlib.SchemaRef(), env.SchemaClient)
		doc := etree.NewDocument()
		if err := doc.ReadFromString(c.Doc); err != nil {
			return false, append(lab, "not-well-formed"), nil
		}
		nontrivial = doc.Root() != nil && len(doc.Root().ChildElements()) > 0
		f := withDeadline("XMLTransform", func() {
			_, err := netconf.NewXML2sdcpbConfigAdapter(scb).Transform(ctx, doc)
			if err != nil {
				lab = append(lab, "xml-error")
			} else {
				lab = append(lab, "xml-ok")
			}
		})
		return nontrivial, lab, f
	case "import-xml", "import-json":
		scb := schemaClient.NewSchemaClientBound(vlib.SchemaRef(), env.SchemaClient)
		tcc := tree.NewTreeCacheClient("c20import", env.Cache)
		tc := tree.NewTreeContext(tcc, scb, "own0")
		root, err := tree.NewTreeRoot(ctx, tc)
		if err != nil {
			harnessErr(err)
		}
		var f *vlib.Failure
		if c.Target == "import-xml" {
			doc := etree.NewDocument()
			if err := doc.ReadFromString(c.Doc); err != nil || doc.Root() == nil {
				return false, append(lab, "not-well-formed"), nil
			}
			nontrivial = len(doc.Root().ChildElements()) > 0
			f = withDeadline("ImportConfigXML", func() {
				if err := root.ImportConfig(ctx, xmlImporter.NewXmlTreeImporter(doc.Root()), "own0", 10); err != nil {
					lab = append(lab, "import-error")
				} else {
					lab = append(lab, "import-ok")
					root.FinishInsertionPhase(ctx)
					_ = root.GetHighestPrecedence(false)
				}
			})
		} else {
			var v any
			dec := json.NewDecoder(strings.NewReader(c.Doc))
			if err := dec.Decode(&v); err != nil {
				return false, append(lab, "not-well-formed"), nil
			}
			_, nontrivial = v.(map[string]any)
			f = withDeadline("ImportConfigJSON", func() {
				if err := root.ImportConfig(ctx, jsonImporter.NewJsonTreeImporter(v), "own0", 10); err != nil {
					lab = append(lab, "import-error")
				} else {
					lab = append(lab, "import-ok")
					root.FinishInsertionPhase(ctx)
					_ = root.GetHighestPrecedence(false)
				}
			})
		}
		return nontrivial, lab, f
	}
	return false, lab, nil
}

// baseDS: one shared read-only datastore for the GetData target
func baseDS(ctx context.Context) *vlib.HistEnv {
	if baseEnv == nil {
		baseEnv = populated(context.Background())
	}
	return baseEnv
}

func TestProp(t *testing.T)   { prop.Check(t) }
func TestReplay(t *testing.T) { prop.Replay(t) }
func TestKnown(t *testing.T)  { prop.Known(t) }


// replyDriver answers the NETCONF operations of the real target with the case's reply.
type replyDriver struct {
	c     *Case
	calls int
}

func (d *replyDriver) reply() (*nctypes.NetconfResponse, error) {
	d.calls++
	// as the scrapligo wrapper of data-server does: the reply is parsed into a document (always present); a reply
	// with an rpc-error that is not a plain warning is an error
	doc := etree.NewDocument()
	if err := doc.ReadFromString(d.c.Reply); err != nil {
		return nil, fmt.Errorf("operation failed: %s", d.c.Reply)
	}
	nerr, nwarn := 0, 0
	for _, e := range doc.FindElements("//*") {
		if e.Tag != "rpc-error" {
			continue
		}
		sev := e.SelectElement("error-severity")
		switch {
		case e.Space != "":
			nerr++
		case sev != nil && sev.Text() == "warning":
			nwarn++
		default:
			nerr++
		}
	}
	if nerr > 0 {
		return nil, fmt.Errorf("operation failed: %s", d.c.Reply)
	}
	return nctypes.NewNetconfResponse(doc), nil
}

func (d *replyDriver) Get(string) (*nctypes.NetconfResponse, error)               { return d.reply() }
func (d *replyDriver) GetConfig(string, string) (*nctypes.NetconfResponse, error) { return d.reply() }
func (d *replyDriver) EditConfig(string, string) (*nctypes.NetconfResponse, error) { return d.reply() }
func (d *replyDriver) Lock(string) (*nctypes.NetconfResponse, error)              { return d.reply() }
func (d *replyDriver) Unlock(string) (*nctypes.NetconfResponse, error)            { return d.reply() }
func (d *replyDriver) Validate(string) (*nctypes.NetconfResponse, error)          { return d.reply() }
func (d *replyDriver) Commit() error {
	d.calls++
	if d.c.CommitErr != "" {
		return fmt.Errorf("%s", d.c.CommitErr)
	}
	return nil
}
func (d *replyDriver) Discard() error {
	d.calls++
	if d.c.DiscardErr {
		return fmt.Errorf("operation failed: discard refused")
	}
	return nil
}
func (d *replyDriver) Close() error  { return nil }
func (d *replyDriver) IsAlive() bool { return true }

// ncOnly: the real NETCONF target for Set, the recording device for reads
type ncOnly struct {
	target.Target
	dev *vlib.Device
}

func (t *ncOnly) Get(ctx context.Context, req *sdcpb.GetDataRequest) (*sdcpb.GetDataResponse, error) {
	return t.dev.Get(ctx, req)
}
func (t *ncOnly) Sync(ctx context.Context, c *config.Sync, ch chan *target.SyncUpdate) {}
