package c13

import (
	"context"
	"fmt"
	"sync"
	"time"

	"github.com/openconfig/gnmi/proto/gnmi"
	"github.com/sdcio/cache/proto/cachepb"
	schemaClient "github.com/sdcio/data-server/pkg/datastore/clients/schema"
	"github.com/sdcio/data-server/pkg/config"
	"github.com/sdcio/data-server/pkg/datastore"
	"github.com/sdcio/data-server/pkg/datastore/target"
	"verif/harness/vlib"
)

// ExecDev: a device model behind one of the REAL southbound targets reports its configuration, the real
// target turns the reports into sync messages (NETCONF: get-config reply -> XML2sdcpb adapter -> start /
// notifications / end; gNMI: Get answers or a STREAM subscription -> notifications), the real Datastore.Sync
// loop stores them. After every round of device changes the running store must equal what the device holds.
func ExecDev(c *Case) (nontrivial bool, labels []string, fail *vlib.Failure) {
	d := c.Dev
	ctx, cancel := context.WithCancel(context.Background())
	defer cancel()
	env := vlib.MustEnv()
	lab := map[string]bool{"device-" + d.Kind: true, fmt.Sprintf("workers-%d", c.Workers): true, fmt.Sprintf("validate-%v", c.Validate): true}
	name := env.FreshName("syncdev")
	deco := vlib.NewCacheDeco(env.Cache)
	scb := schemaClient.NewSchemaClientBound(vlib.SchemaRef(), env.SchemaClient)

	confOf := func(us []UpdSel) vlib.Conf {
		r := vlib.Conf{}
		for _, u := range us {
			p, v := uni.Resolve(u.Leaf, palette)
			r[p.Canon()] = v
		}
		return r
	}
	device := vlib.Conf{} // the harness's own copy of what the device holds
	for k, v := range confOf(d.Initial) {
		device.ApplyUpdate(vlib.MustCanon(k), v)
	}

	var tgt target.Target
	var gdev *vlib.GNMIDevice
	var ncf *vlib.NCFake
	enc := gnmi.Encoding_JSON
	sp := &config.SyncProtocol{Name: "cfg", Interval: 100 * time.Millisecond}
	switch d.Kind {
	case "netconf":
		ncf = vlib.NewNCFake()
		ncf.SetConfig(nil, device)
		sbi := &config.SBI{Type: "netconf", Address: "127.0.0.1", Port: 1, NetconfOptions: &config.SBINetconfOptions{IncludeNS: d.NS}, ConnectRetry: 24 * time.Hour, Timeout: time.Second}
		tgt = target.NewNCTargetWithDriver(name, sbi, scb, ncf)
		sp.Protocol, sp.Paths = "netconf", []string{"/plain", "/types"}
		if d.NS {
			lab["netconf-include-ns"] = true
		}
	default:
		gdev = vlib.NewGNMIDevice(device)
		defer gdev.Stop()
		gdev.Chunk, gdev.Blobs, gdev.Prefix = d.Chunk, d.Blobs, d.Prefix
		vlib.GNMIQualifyIdentityKeys = d.QualKeys
		defer func() { vlib.GNMIQualifyIdentityKeys = false }()
		if d.QualKeys {
			lab["identityref-keys-module-qualified"] = true
		}
		if d.Prefix {
			lab["gnmi-notification-prefix"] = true
		}
		var err error
		tgt, err = target.New(ctx, name, &config.SBI{Type: "gnmi", Address: "bufnet", Port: 1, GnmiOptions: &config.SBIGnmiOptions{Encoding: "proto"}}, scb, gdev.DialOpts()...)
		if err != nil {
			harnessErr(fmt.Errorf("gnmi target over bufconn: %w", err))
		}
		defer tgt.Close()
		sp.Protocol, sp.Paths, sp.Encoding = "gnmi", []string{"/plain"}, d.Enc
		enc = gnmi.Encoding(gnmi.Encoding_value[map[string]string{"json": "JSON", "json_ietf": "JSON_IETF", "proto": "PROTO", "ascii": "ASCII"}[d.Enc]])
		lab["gnmi-encoding-"+d.Enc] = true
		if d.Kind == "gnmi-get" {
			sp.Mode = "get"
		} else {
			sp.Mode = "on-change"
		}
		if d.Blobs && (d.Enc == "json" || d.Enc == "json_ietf") {
			lab["json-blobs"] = true
		}
		if d.Chunk > 0 {
			lab["chunked-notifications"] = true
		}
		if d.Chunk < 0 {
			lab["notification-per-parent-node"] = true
		}
	}
	sps := []*config.SyncProtocol{sp}
	if d.Kind == "gnmi-stream" {
		// one subscription per sync entry (a second path inside one entry replaces the first one in the
		// subscribe request the target builds; that is outside the property, so the harness does not rely on it)
		sp2, sp3 := *sp, *sp
		sp2.Name, sp2.Paths = "st", []string{"/state"}
		sp3.Name, sp3.Paths = "ty", []string{"/types"}
		sps = append(sps, &sp2, &sp3)
	}
	if d.Kind == "gnmi-get" {
		sp.Paths = []string{"/plain", "/state", "/types"}
	}
	workers := c.Workers
	if d.Kind == "gnmi-stream" {
		// the order of on-change notifications matters; what several writers do to it is the recorded finding the
		// harness-fed mode exercises with an owned schedule, here the timing would be left to chance
		workers = 1
	}
	ds := env.NewDatastore(ctx, tgt, vlib.DSOpts{Name: name, Cache: deco, Sync: &config.Sync{Validate: c.Validate, Buffer: 1000, WriteWorkers: int64(workers), Config: sps}})
	defer ds.Stop()
	var mu sync.Mutex
	done := 0
	datastore.VerifSyncMsgDone = func(n string) {
		if n == name {
			mu.Lock()
			done++
			mu.Unlock()
		}
	}
	defer func() { datastore.VerifSyncMsgDone = nil }()
	getDone := func() int { mu.Lock(); defer mu.Unlock(); return done }
	go ds.Sync(ctx)

	// what the running store must hold for the device configuration
	expect := func() (cfg, st vlib.Conf) {
		cfg, st = vlib.Conf{}, vlib.Conf{}
		for k, v := range device {
			p := vlib.MustCanon(k)
			n := p.Node()
			if n == nil {
				continue
			}
			switch d.Kind {
			case "netconf", "gnmi-get":
				if n.State {
					continue // get-config / Get(CONFIG) do not report state
				}
			}
			if gdev != nil && !p.IsKeyLeaf() && !vlib.GNMIRepresentable(p, v, enc) {
				continue // the device cannot report this node in this encoding
			}
			if c.Validate && n.State {
				st[k] = v
			} else {
				cfg[k] = v
			}
		}
		return
	}
	stall := func(what string) *vlib.Failure {
		_, applied := deco.PruneCounts()
		extra := ""
		if gdev != nil {
			g, gn, q, s := gdev.Counters()
			extra = fmt.Sprintf(" gnmi: %d Get calls with %d notifications, %d queued / %d sent on subscriptions, %d subscribers", g, gn, q, s, gdev.Subscribers())
		}
		if ncf != nil {
			_, n := ncf.ConfigSnapshot()
			extra = fmt.Sprintf(" netconf: %d get-config answers", n)
		}
		return vlib.Failf("C13:sync-stalled:device-"+d.Kind, "%s: %d notifications stored, %d cycles pruned;%s", what, getDone(), applied, extra)
	}
	waitFor := func(what string, cond func() bool) *vlib.Failure {
		dl := time.Now().Add(20 * time.Second)
		for !cond() {
			if time.Now().After(dl) {
				return stall(what)
			}
			time.Sleep(200 * time.Microsecond)
		}
		return nil
	}
	// quiescent: everything the device reported about its present configuration is stored
	quiescent := func(round int) *vlib.Failure {
		what := fmt.Sprintf("round %d", round)
		switch d.Kind {
		case "netconf":
			_, g0 := ncf.ConfigSnapshot()
			if f := waitFor(what+": next get-config", func() bool { _, g := ncf.ConfigSnapshot(); return g > g0 }); f != nil {
				return f
			}
			_, g1 := ncf.ConfigSnapshot()
			return waitFor(what+": cycle end", func() bool { _, a := deco.PruneCounts(); return a >= g1 })
		case "gnmi-get":
			g0, _, _, _ := gdev.Counters()
			if f := waitFor(what+": next Get", func() bool { g, _, _, _ := gdev.Counters(); return g > g0 }); f != nil {
				return f
			}
			g1, n1, _, _ := gdev.Counters()
			return waitFor(what+": cycle end", func() bool { _, a := deco.PruneCounts(); return a >= g1 && getDone() >= n1 })
		default:
			if f := waitFor(what+": subscriptions", func() bool { return gdev.Subscribers() >= 3 }); f != nil {
				return f
			}
			return waitFor(what+": notifications stored", func() bool { _, _, q, s := gdev.Counters(); return s == q && getDone() >= s })
		}
	}
	check := func(round int) *vlib.Failure {
		if f := quiescent(round); f != nil {
			return f
		}
		cfgDump, err := vlib.DumpFlat(context.Background(), env.Cache, name, cachepb.Store_CONFIG)
		if err != nil {
			harnessErr(err)
		}
		stDump, err := vlib.DumpFlat(context.Background(), env.Cache, name, cachepb.Store_STATE)
		if err != nil {
			harnessErr(err)
		}
		wc, ws := expect()
		where := fmt.Sprintf("device %s (encoding %s, blobs=%v, chunk=%d) round %d workers=%d validate=%v", d.Kind, d.Enc, d.Blobs, d.Chunk, round, c.Workers, c.Validate)
		if f := compare("CONFIG", cfgDump, wc, where, false, nil); f != nil {
			f.Sig += ":device-" + d.Kind
			f.Detail += "\ndevice: " + vlib.JSON(device)
			return f
		}
		if f := compare("STATE", stDump, ws, where, false, nil); f != nil {
			f.Sig += ":device-" + d.Kind
			f.Detail += "\ndevice: " + vlib.JSON(device)
			return f
		}
		return nil
	}
	if f := check(0); f != nil {
		return nontrivial, keys(lab), f
	}
	for i, ch := range d.Rounds {
		upd := confOf(ch.Updates)
		var dels []vlib.IPath
		for _, dl := range ch.Deletes {
			dels = append(dels, resolveDel(dl))
		}
		before := len(device)
		for _, dp := range dels {
			if device.ApplyDelete(dp) > 0 {
				lab["device-deletes-stored-path"] = true
				nontrivial = true
			}
		}
		for _, k := range upd.SortedKeys() {
			device.ApplyUpdate(vlib.MustCanon(k), upd[k])
		}
		if len(upd) > 0 && before > 0 {
			nontrivial = true
		}
		if ncf != nil {
			ncf.SetConfig(dels, upd)
		} else {
			gdev.Apply(dels, upd)
		}
		if f := check(i + 1); f != nil {
			return nontrivial, keys(lab), f
		}
	}
	cancel()
	return nontrivial, keys(lab), nil
}
