// C13 — the running datastore mirrors the device after sync.
package c13

import (
	"context"
	"encoding/json"
	"fmt"
	"os"
	"sort"
	"strings"
	"sync"
	"testing"
	"time"

	"github.com/sdcio/cache/proto/cachepb"
	"github.com/sdcio/data-server/pkg/config"
	"github.com/sdcio/data-server/pkg/datastore"
	"github.com/sdcio/data-server/pkg/datastore/target"
	sdcpb "github.com/sdcio/sdc-protos/sdcpb"
	"pgregory.net/rapid"
	"verif/harness/vlib"
)

func TestMain(m *testing.M) { vlib.Main(m) }

// templates over plain + state; key values include prefix-related names
var tmpls = []vlib.Tmpl{
	vlib.T("plain/descr"), vlib.T("plain/descr-long"), vlib.T("plain/a"), vlib.T("plain/a_b"), vlib.T("plain/num"), vlib.T("plain/tags"), vlib.T("plain/pres"),
	vlib.T("plain/sub/x"), vlib.T("plain/l1/descr"), vlib.T("plain/l1/descr-long"), vlib.T("plain/l1/mtu"), vlib.T("plain/l1/tags"), vlib.T("plain/l1/cfg/mode"),
	vlib.T("plain/l1/sub/v"), vlib.T("plain/l1/oper"), vlib.T("plain/l2a/v"), vlib.T("plain/ifc/v"), vlib.T("plain/ifc-ext/v"), vlib.T("state/counter"), vlib.T("state/oper"),
	vlib.T("plain/l1/descr"), vlib.T("plain/l1/mtu"),
	vlib.T("state/oper-reason"), vlib.T("state/nbr/v"), vlib.T("state/nbr/v"),
	// (appended) several leaf-lists side by side in one container
	vlib.T("types/ll-i8"), vlib.T("types/ll-u8"), vlib.T("types/ll-str"),
	// (appended) two nodes below a container at depth three (long common prefixes)
	vlib.T("plain/l1/cfg/pres"), vlib.T("plain/l1/cfg/mode"),
	// (appended) nodes of the augmenting module (prefix ve, module name verif-ext) directly below a node of the main module
	vlib.T("plain/extll"), vlib.T("plain/extleaf"), vlib.T("plain/extc/e2"),
	// (appended) a list keyed by an identityref
	vlib.T("plain/il/v"), vlib.T("plain/il/w"),
	// (appended) leaves of the built-in types as a device reports them (XML text, gNMI typed values, JSON, JSON_IETF)
	vlib.T("types/emp"), vlib.T("types/d3"), vlib.T("types/idr"), vlib.T("types/bits"), vlib.T("types/uni"), vlib.T("types/u64"), vlib.T("types/bin"),
	vlib.T("types/enu"), vlib.T("types/bool"), vlib.T("types/i64"), vlib.T("types/ll-idr"), vlib.T("types/ll-d3"), vlib.T("types/ll-uni"),
}
var uni = &vlib.Universe{Name: "sync", Tmpls: tmpls}
var palette = []string{"eth1", "eth10", "eth1/1"}

// palettes: the default one and key values of which two pairs read the same once joined ([x.y, x] / [x, y.x])
var palettes = [][]string{{"eth1", "eth10", "eth1/1"}, {"a", "a b", "b a"}, {"a", "a/b", "b/a"}, {"a", "a_b", "b_a"},
	// values with ':' (IPv6 / MAC addresses, interface names): not module prefixes
	{"x:y", "fe80::1", "y"},
	// characters with a meaning in regular expressions and path syntax
	{"[z]", "k=v", "c.d"}, {"a+b", "aab", "a(b|c)"}}

type UpdSel struct {
	Leaf vlib.LeafSel `json:"leaf"`
	Form string       `json:"form"` // typed | string | json (blob at the top container) | llkey (leaf-list element sent as key)
}

type DelSel struct {
	Leaf  vlib.LeafSel `json:"leaf"`
	Level int          `json:"level"` // 0 = the leaf, 1 = its innermost list entry / container, 2 = one more level up
}

type Msg struct {
	Kind    string   `json:"kind"` // start | end | notif
	Updates []UpdSel `json:"updates,omitempty"`
	Deletes []DelSel `json:"deletes,omitempty"`
}

type Case struct {
	Script   []Msg `json:"script"`
	Workers  int   `json:"workers"`
	Validate bool  `json:"validate"`
	Order    []int `json:"order"` // completion order choices for gated cache writes
	// Pal: index into palettes (0 = the default key values)
	Pal int `json:"pal,omitempty"`
	// Loop: a transaction history in a closed loop (vlib/gnmiloop.go, vlib/ncloop.go): the device changes because the
	// datastore changes it, the real sync of the real target reports the changes back
	Loop *vlib.HistCase `json:"loop,omitempty"`
	// Dev: the notifications come from a device model behind one of the real targets (nil = harness-fed script)
	Dev *DevCase `json:"dev,omitempty"`
}

// DevCase: the real NETCONF target (fake driver answering get-config from a device configuration) or the real gNMI
// target (in-process gNMI server over bufconn) feeds the real sync loop; the device configuration changes in rounds.
type DevChange struct {
	Updates []UpdSel `json:"updates,omitempty"`
	Deletes []DelSel `json:"deletes,omitempty"`
}

type DevCase struct {
	Kind    string      `json:"kind"` // netconf | gnmi-get | gnmi-stream
	Enc     string      `json:"enc"`  // gNMI sync encoding: json | json_ietf | proto | ascii
	Blobs   bool        `json:"blobs,omitempty"`
	Chunk   int         `json:"chunk,omitempty"`
	NS      bool        `json:"ns,omitempty"` // netconf include-ns
	Prefix  bool        `json:"prefix,omitempty"` // gNMI: notifications carry a prefix and relative paths
	QualKeys bool       `json:"qual_keys,omitempty"` // gNMI: identityref key values in paths are spelled module:name
	Initial []UpdSel    `json:"initial"`
	Rounds  []DevChange `json:"rounds"`
}

func genDev(t *rapid.T) *DevCase {
	d := &DevCase{Kind: rapid.SampledFrom([]string{"netconf", "gnmi-get", "gnmi-stream", "gnmi-stream"}).Draw(t, "dev-kind")}
	d.Enc = rapid.SampledFrom([]string{"json", "json_ietf", "proto", "ascii"}).Draw(t, "dev-enc")
	d.Blobs = rapid.Bool().Draw(t, "dev-blobs")
	d.Chunk = rapid.SampledFrom([]int{0, 0, 1, 2, 5, -1, -1}).Draw(t, "dev-chunk")
	d.NS = rapid.Bool().Draw(t, "dev-ns")
	d.Prefix = rapid.Bool().Draw(t, "dev-prefix")
	d.QualKeys = rapid.Bool().Draw(t, "dev-qualified-identity-keys")
	sel := func(label string, min, max int) []UpdSel {
		var r []UpdSel
		for _, ls := range vlib.GenLeafSels(t, uni, min, max, label) {
			r = append(r, UpdSel{Leaf: ls, Form: "typed"})
		}
		return r
	}
	d.Initial = sel("dev-init", 0, 8)
	if rapid.IntRange(0, 2).Draw(t, "dev-sibling-pack") == 1 {
		// several nodes below the same parents (depth two and three) of one list entry: notifications whose paths
		// share a long prefix
		k := rapid.IntRange(0, 2).Draw(t, "dev-pack-key")
		for _, ti := range []int{28, 29, 8, 10} { // l1/cfg/pres, l1/cfg/mode, l1/descr, l1/mtu
			d.Initial = append(d.Initial, UpdSel{Leaf: vlib.LeafSel{T: ti, K: []int{k}, V: rapid.IntRange(0, 2).Draw(t, "dev-pack-v")}, Form: "typed"})
		}
	}
	for i, n := 0, rapid.IntRange(1, 3).Draw(t, "dev-rounds"); i < n; i++ {
		ch := DevChange{Updates: sel("dev-upd", 0, 3)}
		for j, nd := 0, rapid.IntRange(0, 2).Draw(t, "dev-nd"); j < nd; j++ {
			ch.Deletes = append(ch.Deletes, DelSel{Leaf: vlib.GenLeafSels(t, uni, 1, 1, "dev-del")[0], Level: rapid.IntRange(0, 2).Draw(t, "dev-lvl")})
		}
		d.Rounds = append(d.Rounds, ch)
	}
	return d
}

func genMsgs(t *rapid.T) []Msg {
	var s []Msg
	n := rapid.IntRange(1, 10).Draw(t, "nmsg")
	inCycle := false
	for i := 0; i < n; i++ {
		k := rapid.IntRange(0, 9).Draw(t, "mk")
		switch {
		case k == 0 && !inCycle:
			s = append(s, Msg{Kind: "start"})
			inCycle = true
		case k == 0 && inCycle && rapid.IntRange(0, 2).Draw(t, "restart-cycle") == 1:
			// the cycle is abandoned (the target restarted its read): a new one starts without an end in between
			s = append(s, Msg{Kind: "start"})
		case k == 1 && inCycle:
			s = append(s, Msg{Kind: "end"})
			inCycle = false
		case k == 3:
			// a stored name that textually extends another one, then a delete of the shorter one
			// (templates: 0/1 plain/descr, descr-long; 8/9 plain/l1/descr, descr-long; 19/22 state/oper, oper-reason; 23 state/nbr/v)
			type pair struct{ long, short vlib.LeafSel; level int }
			pairs := []pair{
				{vlib.LeafSel{T: 1}, vlib.LeafSel{T: 0}, 0},
				{vlib.LeafSel{T: 9, K: []int{0}}, vlib.LeafSel{T: 8, K: []int{0}}, 0},
				{vlib.LeafSel{T: 8, K: []int{1}}, vlib.LeafSel{T: 8, K: []int{0}}, 1},
				{vlib.LeafSel{T: 22}, vlib.LeafSel{T: 19}, 0},
				{vlib.LeafSel{T: 23, K: []int{1}}, vlib.LeafSel{T: 23, K: []int{0}}, 1},
				{vlib.LeafSel{T: 23, K: []int{2}}, vlib.LeafSel{T: 23, K: []int{0}}, 1},
			}
			p := pairs[rapid.IntRange(0, len(pairs)-1).Draw(t, "prefix-pair")]
			s = append(s, Msg{Kind: "notif", Updates: []UpdSel{{Leaf: p.long, Form: "typed"}, {Leaf: p.short, Form: "typed"}}})
			s = append(s, Msg{Kind: "notif", Deletes: []DelSel{{Leaf: p.short, Level: p.level}}})
		case k == 2:
			// one notification carrying the same leaf-list under several list entries, elements sent as keys
			m := Msg{Kind: "notif"}
			for _, ki := range rapid.Permutation([]int{0, 1, 2}).Draw(t, "ll-entries")[:rapid.IntRange(2, 3).Draw(t, "ll-n")] {
				m.Updates = append(m.Updates, UpdSel{Leaf: vlib.LeafSel{T: 11, K: []int{ki}, V: rapid.IntRange(0, 2).Draw(t, "ll-v")}, Form: "llkey"})
			}
			s = append(s, m)
		default:
			m := Msg{Kind: "notif"}
			if rapid.IntRange(0, 9).Draw(t, "bare-entry") == 4 {
				// a JSON blob in which a list entry consists of nothing but its key
				s = append(s, Msg{Kind: "notif", Updates: []UpdSel{{Leaf: vlib.LeafSel{T: 8, K: []int{rapid.IntRange(0, 2).Draw(t, "bare-k")}}, Form: "json-bare-entry"}}})
				continue
			}
			nu := rapid.IntRange(0, 3).Draw(t, "nu")
			for j := 0; j < nu; j++ {
				sel := vlib.GenLeafSels(t, uni, 1, 1, "u")[0]
				m.Updates = append(m.Updates, UpdSel{Leaf: sel, Form: rapid.SampledFrom([]string{"typed", "typed", "string", "json", "llkey"}).Draw(t, "form")})
			}
			nd := rapid.IntRange(0, 2).Draw(t, "nd")
			if nu == 0 && nd == 0 {
				nd = 1
			}
			for j := 0; j < nd; j++ {
				sel := vlib.GenLeafSels(t, uni, 1, 1, "d")[0]
				m.Deletes = append(m.Deletes, DelSel{Leaf: sel, Level: rapid.IntRange(0, 2).Draw(t, "lvl")})
			}
			s = append(s, m)
		}
	}
	if inCycle {
		s = append(s, Msg{Kind: "end"})
	}
	return s
}

var prop = vlib.Prop[*Case]{
	ID: "C13",
	Rule: "case = notification script over plain + state (on-change streams and well-formed start/…/end cycles; updates as typed values, string values, JSON blobs at containers (also a list entry that consists of its key only), leaf-list elements sent as keys; a cycle may be abandoned and restarted without an end; deletes of leaves, list entries and containers; names eth1 / eth10 / eth1/1, descr / descr-long, a / a_b) x write workers in {1,2,16} x sync validation on/off x a drawn completion order of the gated cache writes; the real Datastore.Sync loop consumes the script from the harness target; " +
		"oracle = after the script is drained and all writers returned (hook H4 + prune counters) CONFIG and STATE equal the sequential sync model: per path the latest notification wins, deletes are structural, paths absent from a completed cycle are gone, state leaves live in STATE when validation is on; " +
		"non-trivial = the script deletes a name that is a textual prefix of another stored name, or two in-flight notifications touch the same path, or a cycle omits a stored path; distinct = distinct case JSON",
	Gen: func(t *rapid.T) *Case {
		switch os.Getenv("VERIF_C13_LOOP") {
		case "nc":
			return &Case{Loop: vlib.GenNCLoop(t)}
		case "gnmi":
			h := vlib.GenHistCase(t, vlib.HistGenOpts{Universe: vlib.UniLoop, MinSteps: 1, MaxSteps: 8, WithInit: true, AllowOrphan: true})
			h.GNMI = rapid.SampledFrom([]string{"proto", "json", "json_ietf"}).Draw(t, "gnmi-encoding")
			h.Loop = true
			return &Case{Loop: h}
		}
		c := &Case{}
		if rapid.IntRange(0, 7).Draw(t, "device-backed") == 3 || os.Getenv("VERIF_C13_DEV") != "" {
			c.Dev = genDev(t)
		} else {
			c.Script = genMsgs(t)
		}
		c.Pal = rapid.SampledFrom([]int{0, 0, 0, 0, 0, 1, 2, 3, 4, 4, 5, 6}).Draw(t, "palette")
		if c.Pal > 0 && c.Pal < 4 && c.Dev == nil && rapid.Bool().Draw(t, "colliding-entries") {
			// one notification carrying both entries of the two-key list (template 15 = plain/l2a/v)
			m := Msg{Kind: "notif", Updates: []UpdSel{
				{Leaf: vlib.LeafSel{T: 15, K: []int{1, 0}, V: rapid.IntRange(0, 2).Draw(t, "coll-v1")}, Form: "typed"},
				{Leaf: vlib.LeafSel{T: 15, K: []int{0, 2}, V: rapid.IntRange(0, 2).Draw(t, "coll-v2")}, Form: "typed"}}}
			at := rapid.IntRange(0, len(c.Script)).Draw(t, "coll-at")
			c.Script = append(c.Script[:at:at], append([]Msg{m}, c.Script[at:]...)...)
		}
		if c.Pal > 0 && c.Pal < 4 && c.Dev != nil && rapid.Bool().Draw(t, "colliding-entries-dev") {
			c.Dev.Initial = append(c.Dev.Initial,
				UpdSel{Leaf: vlib.LeafSel{T: 15, K: []int{1, 0}, V: 0}, Form: "typed"}, UpdSel{Leaf: vlib.LeafSel{T: 15, K: []int{0, 2}, V: 1}, Form: "typed"})
		}
		c.Workers = rapid.SampledFrom([]int{1, 1, 2, 16}).Draw(t, "workers")
		c.Validate = rapid.Bool().Draw(t, "validate")
		for i := 0; i < 24; i++ {
			c.Order = append(c.Order, rapid.IntRange(0, 7).Draw(t, "ord"))
		}
		return c
	},
	Exec: Exec,
}

func harnessErr(err error) {
	fmt.Fprintf(os.Stderr, "HARNESS-ERROR %v\n", err)
	os.Exit(2)
}

// buildNotification renders one message and returns the paths/values it denotes.
type denot struct {
	upd map[string]string
	del []vlib.IPath
	// key leaves of entries the device reported as bare entries: they must be stored
	strict []string
}

func resolveDel(d DelSel) vlib.IPath {
	p, _ := uni.Resolve(d.Leaf, palette)
	for l := 0; l < d.Level && len(p) > 1; l++ {
		p = p[:len(p)-1]
	}
	return p
}

func buildNotification(m Msg) (*sdcpb.Notification, denot) {
	n := &sdcpb.Notification{Timestamp: time.Now().UnixNano()}
	dn := denot{upd: map[string]string{}}
	seen := map[string]bool{}
	for _, u := range m.Updates {
		p, v := uni.Resolve(u.Leaf, palette)
		k := p.Canon()
		if seen[k] {
			continue
		}
		seen[k] = true
		node := p.Node()
		form := u.Form
		if form == "llkey" && node.Kind != vlib.KLeafList {
			form = "typed"
		}
		if form == "json" && (node.Kind == vlib.KContainer || len(p) < 2) {
			form = "typed"
		}
		switch form {
		case "json-bare-entry":
			// {"l1":[{"name":"<key>"}]} at /plain: the entry exists with its key leaf only
			entry := p[:len(p)-1]
			kn := entry[len(entry)-1]
			var kname, kval string
			for a, b := range kn.Keys {
				kname, kval = a, b
			}
			b, _ := json.Marshal(map[string]any{kn.Name: []any{map[string]any{kname: kval}}})
			n.Update = append(n.Update, &sdcpb.Update{Path: entry[:len(entry)-1].Sdcpb(), Value: &sdcpb.TypedValue{Value: &sdcpb.TypedValue_JsonVal{JsonVal: b}}})
			kp := append(entry.Clone(), vlib.PE{Name: kname})
			dn.upd[kp.Canon()] = kval
			dn.strict = append(dn.strict, kp.Canon())
			continue
		case "typed":
			n.Update = append(n.Update, &sdcpb.Update{Path: p.Sdcpb(), Value: vlib.TVFromDenotation(node, v)})
		case "string":
			n.Update = append(n.Update, &sdcpb.Update{Path: p.Sdcpb(), Value: vlib.StringTVFromDenotation(node, v)})
		case "llkey":
			for _, e := range vlib.ParseLL(v) {
				lp := p.Sdcpb()
				lp.Elem[len(lp.Elem)-1].Key = map[string]string{node.Name: e}
				n.Update = append(n.Update, &sdcpb.Update{Path: lp})
			}
		case "json":
			// JSON blob at the parent of the leaf
			parent := p[:len(p)-1]
			doc := map[string]any{}
			if node.Kind == vlib.KLeafList {
				var arr []any
				for _, e := range vlib.ParseLL(v) {
					arr = append(arr, vlib.JSONElem(node, e, false))
				}
				doc[node.Name] = arr
			} else {
				doc[node.Name] = vlib.JSONScalar(node, v, false)
			}
			b, err := json.Marshal(doc)
			if err != nil {
				harnessErr(err)
			}
			n.Update = append(n.Update, &sdcpb.Update{Path: parent.Sdcpb(), Value: &sdcpb.TypedValue{Value: &sdcpb.TypedValue_JsonVal{JsonVal: b}}})
		}
		dn.upd[k] = v
	}
	for _, d := range m.Deletes {
		p := resolveDel(d)
		n.Delete = append(n.Delete, p.Sdcpb())
		dn.del = append(dn.del, p)
	}
	return n, dn
}

// model of the sync: sequential application
type syncModel struct {
	cfg, st  vlib.Conf
	validate bool
	inCycle  bool
	touched  map[string]bool // written since the cycle started ("c:" / "s:" prefix)
	strict   map[string]bool // key leaves reported as bare list entries
}

func (m *syncModel) storeOf(p vlib.IPath) vlib.Conf {
	if m.validate {
		if n := p.Node(); n != nil && n.State {
			return m.st
		}
	}
	return m.cfg
}

func (m *syncModel) apply(dn denot) {
	for _, k := range dn.strict {
		if m.strict == nil {
			m.strict = map[string]bool{}
		}
		m.strict[k] = true
	}
	for _, d := range dn.del {
		// the device no longer has the subtree: config and state leaves below it are gone, whichever store holds them
		m.cfg.ApplyDelete(d)
		m.st.ApplyDelete(d)
	}
	keys := make([]string, 0, len(dn.upd))
	for k := range dn.upd {
		keys = append(keys, k)
	}
	sort.Strings(keys)
	for _, k := range keys {
		p := vlib.MustCanon(k)
		st := m.storeOf(p)
		pre := "c:"
		if &st == &m.st || (m.validate && p.Node().State) {
			pre = "s:"
		}
		st[k] = dn.upd[k]
		m.touched[pre+k] = true
		for _, kl := range p.ImpliedKeyLeaves() {
			// key leaves live where their list lives (a state list keeps its keys in STATE when validation is on)
			kst, kpre := m.storeOf(kl.Path), "c:"
			if m.validate && kl.Path.Node() != nil && kl.Path.Node().State {
				kpre = "s:"
			}
			kst[kl.Path.Canon()] = kl.Value
			m.touched[kpre+kl.Path.Canon()] = true
		}
	}
}

func (m *syncModel) start() { m.inCycle = true; m.touched = map[string]bool{} }
func (m *syncModel) end() {
	if !m.inCycle {
		return
	}
	for k := range m.cfg {
		if !m.touched["c:"+k] {
			delete(m.cfg, k)
		}
	}
	for k := range m.st {
		if !m.touched["s:"+k] {
			delete(m.st, k)
		}
	}
	m.inCycle = false
}

func Exec(c *Case) (nontrivial bool, labels []string, fail *vlib.Failure) {
	if c.Loop != nil {
		if strings.HasPrefix(c.Loop.GNMI, "nc:") {
			return vlib.ExecNCLoop(c.Loop, "C13", false, nil)
		}
		return vlib.ExecGNMILoop(c.Loop, "C13", false)
	}
	palette = palettes[c.Pal%len(palettes)]
	if c.Dev != nil {
		return ExecDev(c)
	}
	ctx, cancel := context.WithCancel(context.Background())
	defer cancel()
	env := vlib.MustEnv()
	lab := map[string]bool{fmt.Sprintf("workers-%d", c.Workers): true, fmt.Sprintf("validate-%v", c.Validate): true}

	// script -> notifications + model
	model := &syncModel{cfg: vlib.Conf{}, st: vlib.Conf{}, validate: c.Validate, touched: map[string]bool{}}
	var script []*target.SyncUpdate
	nNotif, nEnd := 0, 0
	var prevPaths [][]vlib.IPath
	overlap := false
	touchOf := map[int][]vlib.IPath{} // script index -> touched paths
	for _, m := range c.Script {
		switch m.Kind {
		case "start":
			if model.inCycle {
				lab["cycle-abandoned-and-restarted"] = true
			}
			script = append(script, &target.SyncUpdate{Start: true, Force: !model.inCycle || len(script)%2 == 0})
			prevPaths = nil
			model.start()
			lab["cycle"] = true
		case "end":
			script = append(script, &target.SyncUpdate{End: true})
			prevPaths = nil
			before := len(model.cfg) + len(model.st)
			model.end()
			if len(model.cfg)+len(model.st) < before {
				lab["cycle-omits-stored-path"] = true
				nontrivial = true
			}
			nEnd++
		default:
			n, dn := buildNotification(m)
			// non-trivial classes
			for _, d := range dn.del {
				dj := strings.Join(d.Slice(true), ",")
				for k := range model.cfg {
					kj := strings.Join(vlib.MustCanon(k).Slice(true), ",")
					if strings.HasPrefix(kj, dj) && !d.Covers(vlib.MustCanon(k)) {
						lab["delete-of-textual-prefix"] = true
						nontrivial = true
					}
				}
			}
			var touch []vlib.IPath
			for k := range dn.upd {
				touch = append(touch, vlib.MustCanon(k))
			}
			touch = append(touch, dn.del...)
			prevPaths = append(prevPaths, touch)
			touchOf[len(script)] = touch
			model.apply(dn)
			script = append(script, &target.SyncUpdate{Update: n})
			nNotif++
			for _, u := range m.Updates {
				lab["form-"+u.Form] = true
			}
		}
	}

	// the real datastore with a gated cache and the harness target; the harness owns the schedule:
	// it dispatches one message at a time and decides which parked cache write completes next
	deco := vlib.NewCacheDeco(env.Cache)
	dev := vlib.NewDevice(nil)
	dev.SyncFeed = make(chan *target.SyncUpdate)
	name := env.FreshName("sync")
	ds := env.NewDatastore(ctx, dev, vlib.DSOpts{Name: name, Cache: deco, Sync: &config.Sync{Validate: c.Validate, Buffer: 1000, WriteWorkers: int64(c.Workers)}})
	defer ds.Stop()

	var mu sync.Mutex
	done := 0
	datastore.VerifSyncMsgDone = func(n string) {
		if n == name {
			mu.Lock()
			done++
			mu.Unlock()
		}
	}
	defer func() { datastore.VerifSyncMsgDone = nil }()

	type parked struct {
		ch  chan struct{}
		msg int // script index of the notification this writer belongs to
	}
	var pk []*parked
	newPark := make(chan *parked, 64)
	deco.Gate = func(ctx context.Context, call vlib.CacheCall) {
		p := &parked{ch: make(chan struct{}), msg: -1}
		select {
		case newPark <- p:
		case <-ctx.Done():
			return
		}
		select {
		case <-p.ch:
		case <-ctx.Done():
		}
	}
	go ds.Sync(ctx)

	getDone := func() int { mu.Lock(); defer mu.Unlock(); return done }
	stalled := func(what string) *vlib.Failure {
		_, applied := deco.PruneCounts()
		return vlib.Failf("C13:sync-stalled", "%s: %d/%d notifications finished, %d cycles pruned, %d writers parked", what, getDone(), nNotif, applied, len(pk))
	}
	// waitEvent: a writer parks (attributed to msg) or a notification finishes
	waitEvent := func(msg int, doneBefore int) (bool, *vlib.Failure) {
		deadline := time.After(20 * time.Second)
		for {
			select {
			case p := <-newPark:
				p.msg = msg
				pk = append(pk, p)
				return true, nil
			case <-deadline:
				return false, stalled(fmt.Sprintf("waiting for message %d", msg))
			default:
			}
			if getDone() > doneBefore {
				return false, nil
			}
			time.Sleep(100 * time.Microsecond)
		}
	}
	live := map[int]bool{} // notifications dispatched and not finished
	oi := 0
	draw := func(n int) int { v := c.Order[oi%len(c.Order)] % n; oi++; return v }
	releaseOne := func() *vlib.Failure {
		idx := draw(len(pk))
		for j := 0; j < idx; j++ {
			if pk[j].msg < pk[idx].msg {
				lab["out-of-order-completion"] = true
			}
		}
		p := pk[idx]
		pk = append(pk[:idx], pk[idx+1:]...)
		before := getDone()
		close(p.ch)
		// the released writer either parks again on its next cache write or its notification finishes
		again, f := waitEvent(p.msg, before)
		if !again {
			delete(live, p.msg)
		}
		return f
	}
	dispatched := 0
	for i, su := range script {
		isNotif := su.Update != nil
		if !isNotif {
			// cycle markers must wait for all in-flight writers. Half of the time the harness lets the writers
			// finish first; otherwise the marker is dispatched while writers are parked and the datastore itself
			// has to hold the marker back (the writers are released one by one while it waits)
			if len(pk) > 0 && draw(2) == 0 {
				lab["marker-dispatched-with-writers-in-flight"] = true
				nontrivial = true
			} else {
				for len(pk) > 0 {
					if f := releaseOne(); f != nil {
						return nontrivial, keys(lab), f
					}
				}
				for getDone() < dispatched {
					time.Sleep(100 * time.Microsecond)
				}
			}
			created, applied := deco.PruneCounts()
			dev.SyncFeed <- su
			deadline := time.Now().Add(20 * time.Second)
			lastRelease := time.Now()
			for {
				c2, a2 := deco.PruneCounts()
				if (su.Start && c2 > created) || (su.End && (a2 > applied || created == 0)) {
					break
				}
				if time.Now().After(deadline) {
					return nontrivial, keys(lab), stalled("cycle marker not processed")
				}
				if len(pk) > 0 && time.Since(lastRelease) > 15*time.Millisecond {
					if f := releaseOne(); f != nil {
						return nontrivial, keys(lab), f
					}
					lastRelease = time.Now()
				}
				time.Sleep(100 * time.Microsecond)
			}
			continue
		}
		// all worker slots taken by parked writers: some must complete before the next dispatch
		for len(pk) > 0 && inflight(pk) >= c.Workers {
			if f := releaseOne(); f != nil {
				return nontrivial, keys(lab), f
			}
		}
		// optionally let parked writers complete before dispatching the next notification
		for len(pk) > 0 && draw(3) == 0 {
			if f := releaseOne(); f != nil {
				return nontrivial, keys(lab), f
			}
		}
		// notifications that are in flight together and touch overlapping paths
		for m := range live {
			for _, a := range touchOf[m] {
				for _, b := range touchOf[i] {
					if a.Covers(b) || b.Covers(a) {
						overlap = true
						nontrivial = true
						lab["overlapping-paths-in-flight"] = true
					}
				}
			}
		}
		before := getDone()
		dev.SyncFeed <- su
		dispatched++
		live[i] = true
		again, f := waitEvent(i, before)
		if f != nil {
			return nontrivial, keys(lab), f
		}
		if !again {
			delete(live, i)
		}
	}
	for len(pk) > 0 {
		if f := releaseOne(); f != nil {
			return nontrivial, keys(lab), f
		}
	}
	dl := time.Now().Add(20 * time.Second)
	for getDone() < nNotif {
		if time.Now().After(dl) {
			return nontrivial, keys(lab), stalled("final drain")
		}
		time.Sleep(100 * time.Microsecond)
	}
	deco.Gate = nil
	cancel()

	cfgDump, err := vlib.DumpFlat(context.Background(), env.Cache, name, cachepb.Store_CONFIG)
	if err != nil {
		harnessErr(err)
	}
	stDump, err := vlib.DumpFlat(context.Background(), env.Cache, name, cachepb.Store_STATE)
	if err != nil {
		harnessErr(err)
	}
	where := fmt.Sprintf("workers=%d validate=%v", c.Workers, c.Validate)
	if f := compare("CONFIG", cfgDump, model.cfg, where, overlap, model.strict); f != nil {
		return nontrivial, keys(lab), f
	}
	if f := compare("STATE", stDump, model.st, where, overlap, model.strict); f != nil {
		return nontrivial, keys(lab), f
	}
	return nontrivial, keys(lab), nil
}

// inflight counts the distinct notifications that have a parked writer
func inflight[T any](pk []T) int { return len(pk) }

func compare(store string, dump vlib.StoreDump, want vlib.Conf, where string, overlap bool, strict map[string]bool) *vlib.Failure {
	got := vlib.Conf{}
	for _, e := range dump {
		if e.Raw != "" {
			return vlib.Failf("C13:undecodable-stored-value", "%s %s: %s holds %s", where, store, e.Canon, e.Raw)
		}
		got[e.Canon] = e.Den
	}
	// key leaves: compared only for entries the model knows (implied key leaves are an implementation choice)
	for k := range got {
		if _, ok := want[k]; !ok && vlib.MustCanon(k).IsKeyLeaf() {
			entry := vlib.MustCanon(k)
			entry = entry[:len(entry)-1]
			for w := range want {
				if entry.IsStrictAncestorOf(vlib.MustCanon(w)) {
					delete(got, k)
					break
				}
			}
		}
	}
	for k := range want {
		if _, ok := got[k]; !ok && vlib.MustCanon(k).IsKeyLeaf() && !strict[k] {
			delete(want, k)
		}
	}
	d := got.Diff(want)
	if len(d) == 0 {
		return nil
	}
	sig := "C13:" + strings.ToLower(store) + "-differs"
	if overlap {
		// notifications touching overlapping paths were processed by concurrent writers
		sig += ":overlapping-notifications-in-flight"
	}
	first := d[0]
	switch {
	case strings.Contains(first, "vs <absent>"):
		sig += ":extra-path"
	case strings.Contains(first, "<absent> vs"):
		sig += ":missing-path"
	default:
		sig += ":wrong-value"
	}
	return vlib.Failf(sig, "%s: %s store differs from the sequential sync model (store vs model):\n  %s\nstore: %s\nmodel: %s", where, store, strings.Join(d, "\n  "), vlib.JSON(got), vlib.JSON(want))
}

func keys(m map[string]bool) []string {
	var r []string
	for k := range m {
		r = append(r, k)
	}
	return r
}

func TestProp(t *testing.T)   { prop.Check(t) }
func TestReplay(t *testing.T) { prop.Replay(t) }
func TestKnown(t *testing.T)  { prop.Known(t) }
