// C17 — validation verdicts do not depend on scheduling.
package c17

import (
	"time"
	"context"
	"fmt"
	"os"
	"runtime"
	"sort"
	"strings"
	"testing"

	"github.com/sdcio/data-server/pkg/config"
	schemaClient "github.com/sdcio/data-server/pkg/datastore/clients/schema"
	"github.com/sdcio/data-server/pkg/tree"
	sdcpb "github.com/sdcio/sdc-protos/sdcpb"
	"pgregory.net/rapid"
	"verif/harness/vlib"
)

func TestMain(m *testing.M) { vlib.Main(m) }

type Intent struct {
	Owner int       `json:"owner"`
	Kind  string    `json:"kind"` // set | delete
	Conf  vlib.Conf `json:"conf,omitempty"`
}

type Case struct {
	// Mode: "datastore" = through TransactionSet (running is loaded into the tree up front);
	// "tree" = the first step is inserted into a tree built the way the datastore builds it, but the running
	// configuration stays in the cache only, so validators load running values and defaults on demand
	Mode     string     `json:"mode,omitempty"`
	Steps    [][]Intent `json:"steps"`
	Procs    int        `json:"procs"`
	Repeats  int        `json:"repeats"`
	Running  vlib.Conf  `json:"running,omitempty"` // initial running configuration (loaded on demand by validators)
	// tree mode: an intent of another owner that is stored (through the pipeline) before the tree is built; the
	// validators find its paths through the intended-store index only
	Stored vlib.Conf `json:"stored,omitempty"`
	// tree mode: the indexes of the tree's cache client are not loaded up front, the first validator that needs
	// them loads them on demand
	LazyIndex bool `json:"lazy_index,omitempty"`
}

var fragPool = vlib.FragmentIdx(func(f vlib.Fragment) bool { return f.Class != "type" })

var validFrags = vlib.FragmentIdx(func(f vlib.Fragment) bool { return f.Class == "" })

// genBulk adds list content; strict = content that is valid by construction.
func genBulk(t *rapid.T, conf vlib.Conf, strict bool) {
	nsvc := rapid.IntRange(0, 14).Draw(t, "nsvc")
	var all, gold []string
	// (not in the quick tier's race-detector shards: a wide tree costs seconds there)
	if rapid.IntRange(0, 9).Draw(t, "wide") == 5 && rapid.IntRange(0, 3).Draw(t, "wide-b") == 2 && !(os.Getenv("GORACE") != "" && os.Getenv("VERIF_TIER") == "quick") {
		// a wide tree: hundreds of list entries validated side by side
		for i, n := 0, rapid.IntRange(400, 520).Draw(t, "nwide"); i < n; i++ {
			name := fmt.Sprintf("w%d", i)
			conf["/cons/svc[name="+name+"]/kind"] = "silver"
			if i%3 == 0 {
				conf["/cons/svc[name="+name+"]/note"] = "n"
			}
		}
	}
	for i := 0; i < nsvc; i++ {
		name := fmt.Sprintf("s%d", rapid.IntRange(0, 19).Draw(t, "svc"))
		shape := rapid.IntRange(0, 5).Draw(t, "svc-shape")
		if strict && shape == 0 {
			shape = 2
		}
		switch shape {
		case 0: // mandatory kind missing
			conf["/cons/svc[name="+name+"]/note"] = "n"
			continue
		case 1:
			conf["/cons/svc[name="+name+"]/kind"] = "silver"
		default:
			conf["/cons/svc[name="+name+"]/kind"] = "gold"
		}
		all = append(all, name)
		if rapid.Bool().Draw(t, "svc-dd") {
			// must across branches onto a leaf that only exists through its default (loaded lazily by every entry)
			conf["/cons/svc[name="+name+"]/dd"] = "x"
			if strict {
				// dd needs /cons/mode = on; in tree mode the generator moves it to the running configuration
				conf["/cons/mode"] = "on"
			}
		}
	}
	for _, n := range all {
		if conf["/cons/svc[name="+n+"]/kind"] == "gold" {
			gold = append(gold, n)
		}
	}
	nref := rapid.IntRange(0, 14).Draw(t, "nref")
	for i := 0; i < nref; i++ {
		name := fmt.Sprintf("r%d", rapid.IntRange(0, 19).Draw(t, "ref"))
		tgt := fmt.Sprintf("s%d", rapid.IntRange(0, 24).Draw(t, "target")) // s20..s24 never exist
		shape := rapid.IntRange(0, 3).Draw(t, "ref-shape")
		if strict {
			switch {
			case shape == 3 && len(all) > 0:
				tgt = all[rapid.IntRange(0, len(all)-1).Draw(t, "w-target")]
			case shape == 1 && len(gold) > 0:
				tgt = gold[rapid.IntRange(0, len(gold)-1).Draw(t, "gold-target")]
			case len(all) > 0 && conf["/cons/svc[name="+all[0]+"]/kind"] != "":
				tgt = all[rapid.IntRange(0, len(all)-1).Draw(t, "svc-target")]
				if shape == 1 {
					shape = 0
				}
			default:
				shape = 2
			}
		}
		switch shape {
		case 0:
			conf["/cons/ref[name="+name+"]/target"] = tgt
		case 1:
			conf["/cons/ref[name="+name+"]/needkind"] = tgt
		case 3:
			// must onto the default weight of a svc entry: many refs load the same default concurrently
			conf["/cons/ref[name="+name+"]/wref"] = tgt
		default:
			conf["/cons/ref[name="+name+"]/soft"] = tgt
		}
	}
	ngrp := rapid.IntRange(0, 6).Draw(t, "ngrp")
	for i := 0; i < ngrp; i++ {
		name := fmt.Sprintf("g%d", rapid.IntRange(10, 19).Draw(t, "grp"))
		n := rapid.IntRange(1, 4).Draw(t, "members")
		if strict {
			n = 2 + n%2
		}
		conf["/cons/grp[name="+name+"]/members"] = "[" + strings.Join([]string{"a", "b", "c", "d"}[:n], ",") + "]"
	}
}

func genConf(t *rapid.T) vlib.Conf {
	conf := vlib.Conf{}
	strict := rapid.IntRange(0, 2).Draw(t, "strict") != 0
	pool := fragPool
	if strict {
		pool = validFrags
	}
	for i, n := 0, rapid.IntRange(0, 3).Draw(t, "nfrag"); i < n; i++ {
		for k, v := range vlib.Fragments[rapid.SampledFrom(pool).Draw(t, "frag")].Leaves {
			conf[k] = v
		}
	}
	if rapid.IntRange(0, 3).Draw(t, "bulk") != 0 {
		genBulk(t, conf, strict)
	}
	if rapid.IntRange(0, 2).Draw(t, "choice-content") == 0 {
		// members of several cases of the choices (different owners make different cases win): the choice resolution is
		// consulted by every traversal of the validators
		pool := []string{"/chc/ca", "/chc/ca2", "/chc/cb", "/chc/cbc/x", "/chc/cl", "/chc/other", "/chc/nest/oi/na", "/chc/nest/oi/nb", "/chc/nest/oi/nb2", "/chc/nest/oi/oil", "/chc/nest/o1l", "/chc/nest/oc",
			"/chc/ce[name=a]/ia", "/chc/ce[name=a]/ib", "/chc/ce[name=b]/ib2", "/chc/ce[name=b]/pv"}
		for i, n := 0, rapid.IntRange(1, 6).Draw(t, "nchoice"); i < n; i++ {
			p := rapid.SampledFrom(pool).Draw(t, "choice-member")
			v := "v1"
			if p == "/chc/cl" {
				v = "[v1,v2]"
			}
			conf[p] = v
		}
	}
	if len(conf) == 0 {
		conf["/cons/lo"] = "1"
	}
	return conf
}

func gen(t *rapid.T) *Case {
	c := &Case{Procs: rapid.SampledFrom([]int{1, 2, 4, 16}).Draw(t, "gomaxprocs"), Repeats: rapid.IntRange(1, 3).Draw(t, "repeats")}
	if rapid.Bool().Draw(t, "has-running") {
		c.Running = vlib.Conf{}
		genBulk(t, c.Running, true)
	}
	c.Mode = rapid.SampledFrom([]string{"datastore", "tree"}).Draw(t, "mode")
	c.LazyIndex = c.Mode == "tree" && rapid.Bool().Draw(t, "lazy-index")
	n := rapid.IntRange(1, 5).Draw(t, "nsteps")
	if c.Mode == "tree" {
		n = 1
	}
	for i := 0; i < n; i++ {
		ni := rapid.SampledFrom([]int{1, 1, 2, 3}).Draw(t, "nintents")
		owners := rapid.Permutation([]int{0, 1, 2, 3}).Draw(t, "owners")
		var st []Intent
		for j := 0; j < ni; j++ {
			in := Intent{Owner: owners[j], Kind: rapid.SampledFrom([]string{"set", "set", "set", "set", "delete"}).Draw(t, "kind")}
			if c.Mode == "tree" {
				in.Kind = "set"
			}
			if in.Kind == "set" {
				in.Conf = genConf(t)
				if c.Mode == "tree" && in.Conf["/cons/mode"] == "on" && rapid.IntRange(0, 3).Draw(t, "mode-only-in-running") != 0 {
					// the leaf all dd must statements look at exists in the running configuration only: every
					// svc entry's validator loads it on demand
					delete(in.Conf, "/cons/mode")
					if c.Running == nil {
						c.Running = vlib.Conf{}
					}
					c.Running["/cons/mode"] = "on"
				}
				if c.Mode == "tree" && rapid.Bool().Draw(t, "keyed-leafref") {
					// ref entries whose leafref key (svcname) exists in the running configuration only: the leafref
					// validator loads it on demand while the sibling chk validator reads the same leaf in its must
					if c.Running == nil {
						c.Running = vlib.Conf{}
					}
					for x, nk := 0, rapid.IntRange(1, 8).Draw(t, "nkeyed"); x < nk; x++ {
						q := fmt.Sprintf("k%d", x)
						svc := fmt.Sprintf("s%d", rapid.IntRange(0, 19).Draw(t, "keyed-svc"))
						c.Running["/cons/ref[name="+q+"]/svcname"] = svc
						if rapid.IntRange(0, 3).Draw(t, "keyed-svc-exists") != 0 {
							c.Running["/cons/svc[name="+svc+"]/kind"] = "gold"
						}
						in.Conf["/cons/ref[name="+q+"]/viasvc"] = "gold"
						in.Conf["/cons/ref[name="+q+"]/chk"] = "c"
					}
				}
				if c.Mode == "tree" && j == 0 && rapid.Bool().Draw(t, "stored-intent") {
					// svc entries whose mandatory leaf is held by a stored intent of another owner: the mandatory check
					// of every entry consults the intended-store index
					c.Stored = vlib.Conf{}
					for x, ns := 0, rapid.IntRange(2, 14).Draw(t, "nstored"); x < ns; x++ {
						c.Stored[fmt.Sprintf("/cons/svc[name=t%d]/kind", x)] = "gold"
						in.Conf[fmt.Sprintf("/cons/svc[name=t%d]/note", x)] = "n"
					}
				}
				if c.Mode == "tree" && len(c.Running) > 0 {
					// references into content that only the running configuration holds
					var rs []string
					for k := range c.Running {
						if strings.HasPrefix(k, "/cons/svc[name=") && strings.HasSuffix(k, "/kind") {
							rs = append(rs, strings.TrimSuffix(strings.TrimPrefix(k, "/cons/svc[name="), "]/kind"))
						}
					}
					sort.Strings(rs)
					for x, nr := 0, rapid.IntRange(0, 10).Draw(t, "running-refs"); x < nr && len(rs) > 0; x++ {
						tgt := rs[rapid.IntRange(0, len(rs)-1).Draw(t, "running-target")]
						leaf := rapid.SampledFrom([]string{"target", "needkind", "wref", "soft"}).Draw(t, "running-ref-leaf")
						in.Conf[fmt.Sprintf("/cons/ref[name=q%d]/%s", rapid.IntRange(0, 9).Draw(t, "q"), leaf)] = tgt
					}
				}
			}
			st = append(st, in)
		}
		c.Steps = append(c.Steps, st)
	}
	return c
}

var prop = vlib.Prop[*Case]{
	ID: "C17",
	Rule: "case = optional running configuration + history of 1..5 multi-intent transactions over the constraint subtree (fragments of every constraint class plus bulk content: up to 14 svc entries with / without their mandatory leaf, up to 14 ref entries whose leafrefs and must expressions point into the svc list, groups with min / max-elements, now and then 400..520 more svc entries side by side), GOMAXPROCS in {1,2,4,16}, 1..3 repeated dry runs per step; the binary is built with the race detector (halt_on_error) in the thorough tier and in one quick run; " +
		"oracle = differential: datastore A validates sequentially (DisableConcurrency), datastore B concurrently; after every step the outcome (error / per-intent error set / warning set, compared as sorted sets) of B equals that of A, and every repeated dry run of the same step on B equals B's real answer; a data race reported by the race detector kills the worker and is reported through the case journal; " +
		"non-trivial = some step validated a tree with at least 8 list entries and produced at least one error or resolved a leafref / must across branches; distinct = distinct cases",
	Gen:  gen,
	Exec: Exec,
}

type outcome struct {
	Err    string
	Errors []string
	Warn   []string
}

func (o outcome) String() string {
	return fmt.Sprintf("err=%q errors=%v warnings=%v", o.Err, o.Errors, o.Warn)
}

func (o outcome) Equal(p outcome) bool { return o.String() == p.String() }

// deadlineHit: the request failed because the harness's own request context ended
func deadlineHit(o outcome) bool { return strings.Contains(o.Err, "context deadline exceeded") }

func outcomeOf(rsp *sdcpb.TransactionSetResponse, err error) outcome {
	o := outcome{}
	if err != nil {
		o.Err = err.Error()
		return o
	}
	for n, ir := range rsp.GetIntents() {
		for _, e := range ir.GetErrors() {
			o.Errors = append(o.Errors, n+": "+e)
		}
		for _, w := range ir.GetWarnings() {
			o.Warn = append(o.Warn, n+": "+w)
		}
	}
	for _, w := range rsp.GetWarnings() {
		o.Warn = append(o.Warn, w)
	}
	sort.Strings(o.Errors)
	sort.Strings(o.Warn)
	return o
}

func reqs(st []Intent) []*sdcpb.TransactionIntent {
	var r []*sdcpb.TransactionIntent
	for _, in := range st {
		ri := vlib.ResolvedIntent{Name: fmt.Sprintf("own%d", in.Owner), Kind: in.Kind, Prio: int32(10 + 10*in.Owner), Explicit: in.Conf, Form: "typed"}
		if in.Kind == "delete" {
			ri.Explicit = nil
		}
		q, err := vlib.BuildIntentRequest(ri)
		if err != nil {
			fmt.Fprintf(os.Stderr, "HARNESS-ERROR %v\n", err)
			os.Exit(2)
		}
		r = append(r, q)
	}
	return r
}

func Exec(c *Case) (nontrivial bool, labels []string, fail *vlib.Failure) {
	ctx := context.Background()
	env := vlib.MustEnv()
	old := runtime.GOMAXPROCS(c.Procs)
	defer runtime.GOMAXPROCS(old)
	mk := func(seq bool) *vlib.HistEnv {
		hc := &vlib.HistCase{Universe: "plain", Palette: []string{"a", "b", "c"}}
		h, err := vlib.NewHistEnv(ctx, env, hc, vlib.HistEnvOpts{Validation: &config.Validation{DisableConcurrency: seq}})
		if err != nil {
			fmt.Fprintf(os.Stderr, "HARNESS-ERROR %v\n", err)
			os.Exit(2)
		}
		if len(c.Running) > 0 {
			run := vlib.WithImplied(c.Running)
			if err := vlib.WriteConfigStore(ctx, env.Cache, h.DSName, run); err != nil {
				fmt.Fprintf(os.Stderr, "HARNESS-ERROR %v\n", err)
				os.Exit(2)
			}
		}
		return h
	}
	for _, st := range c.Steps {
		for _, in := range st {
			if len(in.Conf) > 250 {
				vlib.GetStats("C17").Label("wide-tree")
			}
		}
	}
	if c.Mode == "tree" {
		return execTree(ctx, c, mk)
	}
	a, b := mk(true), mk(false)
	defer a.DS.Stop()
	defer b.DS.Stop()
	lab := map[string]bool{fmt.Sprintf("gomaxprocs-%d", c.Procs): true, "mode-datastore": true}
	for i, st := range c.Steps {
		entries := 0
		for _, in := range st {
			seen := map[string]bool{}
			for k := range in.Conf {
				if j := strings.LastIndex(k, "]/"); j > 0 {
					seen[k[:j]] = true
				}
			}
			entries += len(seen)
		}
		txid := fmt.Sprintf("s%d", i)
		for r := 0; r < c.Repeats; r++ {
			rsp, err, hung := guarded(func() (*sdcpb.TransactionSetResponse, error) {
				return b.SetRequest(fmt.Sprintf("%s-dry%d", txid, r), reqs(st), nil, true)
			})
			if hung {
				return true, keys(lab), vlib.Failf("C17:concurrent-validation-does-not-return", "step %d, dry run %d (GOMAXPROCS=%d): the request with concurrent validation has not returned after 90 s", i+1, r+1, c.Procs)
			}
			if r == 0 {
				// keep the first dry run as reference for the others
			}
			od := outcomeOf(rsp, err)
			b.FreeSlot(fmt.Sprintf("%s-dry%d", txid, r))
			rspS, errS := a.SetRequest(fmt.Sprintf("%s-dry%d", txid, r), reqs(st), nil, true)
			os := outcomeOf(rspS, errS)
			a.FreeSlot(fmt.Sprintf("%s-dry%d", txid, r))
			if deadlineHit(od) || deadlineHit(os) {
				// the 15 s request context of the harness ran out (race detector, busy machine): inconclusive
				vlib.GetStats("C17").Discard("request-deadline-hit-under-load")
				return false, []string{"discard"}, nil
			}
			if !od.Equal(os) {
				return true, keys(lab), vlib.Failf("C17:concurrent-differs-from-sequential:dry-run", "step %d, dry run %d (GOMAXPROCS=%d): concurrent validation: %s\nsequential validation: %s", i+1, r+1, c.Procs, od, os)
			}
		}
		rspA, errA := a.SetRequest(txid, reqs(st), nil, false)
		rspB, errB, hung := guarded(func() (*sdcpb.TransactionSetResponse, error) { return b.SetRequest(txid, reqs(st), nil, false) })
		if hung {
			return true, keys(lab), vlib.Failf("C17:concurrent-validation-does-not-return", "step %d (GOMAXPROCS=%d): the request with concurrent validation has not returned after 90 s; sequential: %s", i+1, c.Procs, outcomeOf(rspA, errA))
		}
		oa, ob := outcomeOf(rspA, errA), outcomeOf(rspB, errB)
		if deadlineHit(oa) || deadlineHit(ob) {
			vlib.GetStats("C17").Discard("request-deadline-hit-under-load")
			return false, []string{"discard"}, nil
		}
		if !oa.Equal(ob) {
			return true, keys(lab), vlib.Failf("C17:concurrent-differs-from-sequential", "step %d (GOMAXPROCS=%d): concurrent validation: %s\nsequential validation: %s", i+1, c.Procs, ob, oa)
		}
		if entries >= 8 && (len(oa.Errors) > 0 || hasRef(st)) {
			nontrivial = true
		}
		if len(oa.Errors) > 0 {
			lab["step-rejected"] = true
		} else if oa.Err == "" {
			lab["step-accepted"] = true
		}
		if len(oa.Errors) > 1 {
			lab["several-errors-in-one-step"] = true
		}
		if oa.Err == "" && len(oa.Errors) == 0 {
			_ = a.DS.TransactionConfirm(ctx, txid)
			_ = b.DS.TransactionConfirm(ctx, txid)
		} else {
			a.FreeSlot(txid)
			b.FreeSlot(txid)
		}
	}
	return nontrivial, keys(lab), nil
}

// validateTree builds a tree as lowlevelTransactionSet does, except that the running configuration is not
// loaded into it, and validates it.
func validateTree(ctx context.Context, h *vlib.HistEnv, st []Intent, seq bool, lazyIndex bool) (outcome, error) {
	env := vlib.MustEnv()
	scb := schemaClient.NewSchemaClientBound(vlib.SchemaRef(), env.SchemaClient)
	tcc := tree.NewTreeCacheClient(h.DSName, env.Cache)
	tc := tree.NewTreeContext(tcc, scb, h.DSName)
	if !lazyIndex {
		if err := tc.GetTreeSchemaCacheClient().RefreshCaches(ctx); err != nil {
			return outcome{}, err
		}
	}
	root, err := tree.NewTreeRoot(ctx, tc)
	if err != nil {
		return outcome{}, err
	}
	flags := tree.NewUpdateInsertFlags()
	flags.SetNewFlag()
	for _, q := range reqs(st) {
		ti, err := h.DS.SdcpbTransactionIntentToInternalTI(ctx, q)
		if err != nil {
			return outcome{Err: "intent conversion: " + err.Error()}, nil
		}
		if err := root.AddCacheUpdatesRecursive(ctx, ti.GetUpdates(), flags); err != nil {
			return outcome{Err: "insert: " + err.Error()}, nil
		}
	}
	root.FinishInsertionPhase(ctx)
	res := root.Validate(ctx, &config.Validation{DisableConcurrency: seq})
	o := outcome{Errors: res.ErrorsStr(), Warn: res.WarningsStr()}
	sort.Strings(o.Errors)
	sort.Strings(o.Warn)
	return o, nil
}

func execTree(ctx context.Context, c *Case, mk func(bool) *vlib.HistEnv) (bool, []string, *vlib.Failure) {
	h := mk(true)
	defer h.DS.Stop()
	lab := map[string]bool{fmt.Sprintf("gomaxprocs-%d", c.Procs): true, "mode-tree": true}
	st := c.Steps[0]
	if len(c.Stored) > 0 {
		q, err := vlib.BuildIntentRequest(vlib.ResolvedIntent{Name: "stored", Kind: "set", Prio: 5, Explicit: c.Stored, Form: "typed"})
		if err != nil {
			fmt.Fprintf(os.Stderr, "HARNESS-ERROR %v\n", err)
			os.Exit(2)
		}
		if rsp, err := h.SetRequest("stored", []*sdcpb.TransactionIntent{q}, nil, false); err != nil || len(vlib.IntentErrorsOf(rsp)) > 0 {
			h.FreeSlot("stored")
			vlib.GetStats("C17").Discard("stored-intent-refused")
			return false, []string{"discard"}, nil
		}
		_ = h.DS.TransactionConfirm(ctx, "stored")
		lab["mandatory-leaf-held-by-stored-intent"] = true
	}
	if c.LazyIndex {
		lab["indexes-loaded-on-demand"] = true
	}
	ref, err := validateTree(ctx, h, st, true, c.LazyIndex)
	if os.Getenv("VERIF_DEBUG") != "" {
		fmt.Printf("DEBUG tree sequential outcome: %s\n", ref)
	}
	if err != nil {
		fmt.Fprintf(os.Stderr, "HARNESS-ERROR %v\n", err)
		os.Exit(2)
	}
	for r := 0; r < c.Repeats+1; r++ {
		type vres struct {
			o   outcome
			err error
		}
		ch := make(chan vres, 1)
		go func() {
			o, err := validateTree(ctx, h, st, false, c.LazyIndex)
			ch <- vres{o, err}
		}()
		var got outcome
		select {
		case r := <-ch:
			got, err = r.o, r.err
		case <-time.After(60 * time.Second):
			return true, keys(lab), vlib.Failf("C17:concurrent-validation-does-not-return:tree", "concurrent validation of the tree (GOMAXPROCS=%d, %d leaves in the step) has not returned after 60 s; the sequential run returned %s", c.Procs, len(st[0].Conf), ref)
		}
		if err != nil {
			fmt.Fprintf(os.Stderr, "HARNESS-ERROR %v\n", err)
			os.Exit(2)
		}
		if !got.Equal(ref) {
			return true, keys(lab), vlib.Failf("C17:concurrent-differs-from-sequential:tree"+treeDiffClass(c, got, ref), "tree with lazily loaded running values, concurrent run %d (GOMAXPROCS=%d): concurrent validation: %s\nsequential validation: %s", r+1, c.Procs, got, ref)
		}
	}
	if len(ref.Errors) > 0 {
		lab["step-rejected"] = true
	} else {
		lab["step-accepted"] = true
	}
	nt := len(c.Running) >= 8 && hasRef(st)
	if nt {
		lab["references-into-running-only-content"] = true
	}
	return nt, keys(lab), nil
}

// guarded runs a request under a watchdog: a validation that never returns is a finding, not a stuck check.
func guarded(f func() (*sdcpb.TransactionSetResponse, error)) (*sdcpb.TransactionSetResponse, error, bool) {
	type res struct {
		r *sdcpb.TransactionSetResponse
		e error
	}
	ch := make(chan res, 1)
	go func() {
		r, e := f()
		ch <- res{r, e}
	}()
	select {
	case x := <-ch:
		return x.r, x.e, false
	case <-time.After(90 * time.Second):
		return nil, nil, true
	}
}

// treeDiffClass names what the two outcomes disagree about: a mandatory leaf / must operand that only the
// running configuration holds (the recorded finding), a mandatory leaf a stored intent holds, anything else.
func treeDiffClass(c *Case, a, b outcome) string {
	in := func(xs []string, x string) bool {
		for _, y := range xs {
			if y == x {
				return true
			}
		}
		return false
	}
	cls := map[string]bool{}
	note := func(line string) {
		switch {
		case strings.Contains(line, "mandatory child"):
			// "... mandatory child kind does not exist, path: cons/svc/s0"
			i := strings.Index(line, "mandatory child ")
			rest := strings.Fields(line[i+len("mandatory child "):])
			j := strings.Index(line, "path: ")
			if len(rest) == 0 || j < 0 {
				cls["other"] = true
				return
			}
			el := strings.Split(strings.Fields(line[j+6:])[0], "/")
			p := "/" + strings.Join(el, "/")
			if len(el) == 3 {
				p = fmt.Sprintf("/%s/%s[name=%s]", el[0], el[1], el[2])
			}
			p += "/" + rest[0]
			if _, ok := c.Stored[p]; ok {
				cls["mandatory-held-by-stored-intent"] = true
			} else if _, ok := c.Running[p]; ok {
				cls["running-only-operand"] = true
			} else {
				cls["other"] = true
			}
		case strings.Contains(line, "must"):
			cls["running-only-operand"] = true
		default:
			cls["other"] = true
		}
	}
	for _, x := range append(append([]string{}, a.Errors...), a.Warn...) {
		if !in(b.Errors, x) && !in(b.Warn, x) {
			note(x)
		}
	}
	for _, x := range append(append([]string{}, b.Errors...), b.Warn...) {
		if !in(a.Errors, x) && !in(a.Warn, x) {
			note(x)
		}
	}
	if a.Err != b.Err {
		cls["other"] = true
	}
	var ks []string
	for k := range cls {
		ks = append(ks, k)
	}
	sort.Strings(ks)
	if len(ks) == 0 {
		return ""
	}
	return ":" + strings.Join(ks, "+")
}

func hasRef(st []Intent) bool {
	for _, in := range st {
		for k := range in.Conf {
			if strings.HasPrefix(k, "/cons/ref[") {
				return true
			}
		}
	}
	return false
}

func keys(m map[string]bool) []string {
	var r []string
	for k := range m {
		r = append(r, k)
	}
	return r
}

func TestProp(t *testing.T)   { prop.Check(t) }
func TestReplay(t *testing.T) { prop.Replay(t) }
func TestKnown(t *testing.T)  { prop.Known(t) }
