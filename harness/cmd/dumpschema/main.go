// dumpschema prints what the real schema-server returns for every node of the
// harness schema (development aid; also used to eyeball the schema table).
package main

import (
	"context"
	"fmt"
	"os"

	sdcpb "github.com/sdcio/sdc-protos/sdcpb"
	"google.golang.org/protobuf/encoding/prototext"
	"verif/harness/vlib"
)

func walk(ctx context.Context, env *vlib.Env, path []*sdcpb.PathElem, depth int) {
	rsp, err := env.SchemaClient.GetSchema(ctx, &sdcpb.GetSchemaRequest{Schema: vlib.SchemaRef(), Path: &sdcpb.Path{Elem: path}})
	if err != nil {
		fmt.Printf("ERR %v: %v\n", path, err)
		return
	}
	if len(os.Args) > 1 {
		fmt.Println(prototext.MarshalOptions{Multiline: true}.Format(rsp.GetSchema()))
	}
	switch s := rsp.GetSchema().GetSchema().(type) {
	case *sdcpb.SchemaElem_Container:
		c := s.Container
		keys := []string{}
		for _, k := range c.Keys {
			keys = append(keys, k.Name)
		}
		fmt.Printf("%*sC %s ns=%s mod=%s keys=%v presence=%v state=%v defaults=%v mand=%v choice=%v\n", depth*2, "", c.Name, c.Namespace, c.ModuleName, keys, c.IsPresence, c.IsState, c.ChildsWithDefaults, c.GetMandatoryChildrenConfig(), c.ChoiceInfo)
		for _, f := range c.Fields {
			fmt.Printf("%*sF %s ns=%s mod=%s type=%s def=%q state=%v\n", depth*2+2, "", f.Name, f.Namespace, f.ModuleName, f.Type.GetType(), f.Default, f.IsState)
		}
		for _, l := range c.Leaflists {
			fmt.Printf("%*sLL %s ns=%s type=%s min=%d max=%d\n", depth*2+2, "", l.Name, l.Namespace, l.Type.GetType(), l.MinElements, l.MaxElements)
		}
		for _, ch := range c.Children {
			if depth == 1 {
				walk(ctx, env, []*sdcpb.PathElem{{Name: ch}}, depth+1)
				continue
			}
			walk(ctx, env, append(append([]*sdcpb.PathElem{}, path...), &sdcpb.PathElem{Name: ch}), depth+1)
		}
	}
}

func main() {
	env := vlib.MustEnv()
	defer env.Close()
	walk(context.Background(), env, nil, 0)
}
