module verif/harness

go 1.23.4

replace github.com/sdcio/data-server => /repo

replace github.com/openconfig/goyang v1.6.0 => github.com/sdcio/goyang v1.6.0-2

require (
	github.com/beevik/etree v1.5.0
	github.com/openconfig/gnmi v0.13.0
	github.com/scrapli/scrapligo v1.3.3
	github.com/sdcio/cache v0.0.35
	github.com/sdcio/data-server v0.0.0
	github.com/sdcio/schema-server v0.0.30
	github.com/sdcio/sdc-protos v0.0.39
	github.com/sirupsen/logrus v1.9.3
	google.golang.org/grpc v1.70.0
	google.golang.org/protobuf v1.36.5
	pgregory.net/rapid v1.3.0
)

require (
	cloud.google.com/go/compute/metadata v0.5.2 // indirect
	github.com/AlekSi/pointer v1.2.0 // indirect
	github.com/beorn7/perks v1.0.1 // indirect
	github.com/bufbuild/protocompile v0.14.1 // indirect
	github.com/cespare/xxhash/v2 v2.3.0 // indirect
	github.com/creack/pty v1.1.24 // indirect
	github.com/davecgh/go-spew v1.1.2-0.20180830191138-d8f796af33cc // indirect
	github.com/dgraph-io/badger/v4 v4.5.0 // indirect
	github.com/dgraph-io/ristretto/v2 v2.0.0 // indirect
	github.com/dustin/go-humanize v1.0.1 // indirect
	github.com/emicklei/go-restful/v3 v3.12.1 // indirect
	github.com/fsnotify/fsnotify v1.8.0 // indirect
	github.com/fxamacker/cbor/v2 v2.7.0 // indirect
	github.com/go-logr/logr v1.4.2 // indirect
	github.com/go-openapi/jsonpointer v0.21.0 // indirect
	github.com/go-openapi/jsonreference v0.21.0 // indirect
	github.com/go-openapi/swag v0.23.0 // indirect
	github.com/gogo/protobuf v1.3.2 // indirect
	github.com/golang/groupcache v0.0.0-20210331224755-41bb18bfe9da // indirect
	github.com/golang/protobuf v1.5.4 // indirect
	github.com/google/flatbuffers v24.3.25+incompatible // indirect
	github.com/google/gnostic-models v0.6.9 // indirect
	github.com/google/go-cmp v0.6.0 // indirect
	github.com/google/gofuzz v1.2.0 // indirect
	github.com/google/uuid v1.6.0 // indirect
	github.com/gorilla/mux v1.8.1 // indirect
	github.com/grpc-ecosystem/go-grpc-middleware v1.4.0 // indirect
	github.com/grpc-ecosystem/go-grpc-prometheus v1.2.0 // indirect
	github.com/jellydator/ttlcache/v3 v3.3.0 // indirect
	github.com/jhump/protoreflect v1.17.0 // indirect
	github.com/josharian/intern v1.0.0 // indirect
	github.com/json-iterator/go v1.1.12 // indirect
	github.com/klauspost/compress v1.17.11 // indirect
	github.com/mailru/easyjson v0.7.7 // indirect
	github.com/mitchellh/go-homedir v1.1.0 // indirect
	github.com/modern-go/concurrent v0.0.0-20180306012644-bacd9c7ef1dd // indirect
	github.com/modern-go/reflect2 v1.0.2 // indirect
	github.com/munnerz/goautoneg v0.0.0-20191010083416-a7dc8b61c822 // indirect
	github.com/openconfig/gnmic/pkg/api v0.1.8 // indirect
	github.com/openconfig/gnmic/pkg/target v0.1.4 // indirect
	github.com/openconfig/gnmic/pkg/types v0.1.2 // indirect
	github.com/openconfig/gnmic/pkg/utils v0.1.1 // indirect
	github.com/openconfig/goyang v1.6.0 // indirect
	github.com/openconfig/grpctunnel v0.1.0 // indirect
	github.com/pkg/errors v0.9.1 // indirect
	github.com/prometheus/client_golang v1.20.5 // indirect
	github.com/prometheus/client_model v0.6.1 // indirect
	github.com/prometheus/common v0.60.1 // indirect
	github.com/prometheus/procfs v0.15.1 // indirect
	github.com/rs/xid v1.6.0 // indirect
	github.com/sdcio/yang-parser v0.0.10 // indirect
	github.com/sirikothe/gotextfsm v1.0.1-0.20200816110946-6aa2cfd355e4 // indirect
	github.com/x448/float16 v0.8.4 // indirect
	go.opencensus.io v0.24.0 // indirect
	golang.org/x/crypto v0.32.0 // indirect
	golang.org/x/net v0.34.0 // indirect
	golang.org/x/oauth2 v0.24.0 // indirect
	golang.org/x/sync v0.10.0 // indirect
	golang.org/x/sys v0.29.0 // indirect
	golang.org/x/term v0.28.0 // indirect
	golang.org/x/text v0.21.0 // indirect
	golang.org/x/time v0.8.0 // indirect
	google.golang.org/genproto/googleapis/rpc v0.0.0-20250106144421-5f5ef82da422 // indirect
	gopkg.in/evanphx/json-patch.v4 v4.12.0 // indirect
	gopkg.in/inf.v0 v0.9.1 // indirect
	gopkg.in/yaml.v2 v2.4.0 // indirect
	gopkg.in/yaml.v3 v3.0.1 // indirect
	k8s.io/api v0.32.0 // indirect
	k8s.io/apimachinery v0.32.0 // indirect
	k8s.io/client-go v0.32.0 // indirect
	k8s.io/klog/v2 v2.130.1 // indirect
	k8s.io/kube-openapi v0.0.0-20241127205056-99599406b04f // indirect
	k8s.io/utils v0.0.0-20241104163129-6fe5fd82f078 // indirect
	sigs.k8s.io/controller-runtime v0.20.1 // indirect
	sigs.k8s.io/json v0.0.0-20241014173422-cfa47c3a1cc8 // indirect
	sigs.k8s.io/structured-merge-diff/v4 v4.4.3 // indirect
	sigs.k8s.io/yaml v1.4.0 // indirect
)
