// C05 — cancel and timeout restore the state from before the transaction.
package c05

import (
	"context"
	"fmt"
	"os"
	"sort"
	"strings"
	"testing"
	"time"

	"pgregory.net/rapid"
	"verif/harness/vlib"
)

func TestMain(m *testing.M) { vlib.Main(m) }

type Case struct {
	Hist   *vlib.HistCase `json:"hist"` // confirmed prefix
	T      vlib.Step      `json:"t"`    // the transaction that is rolled back
	Ending string         `json:"ending"` // cancel | timeout
	// Noise: calls naming another transaction id (all refused) between T and its ending
	Noise []string `json:"noise,omitempty"` // cancel-foreign | confirm-foreign
	// FailFirstRollback (ending cancel): the device refuses the first rollback, the client repeats the cancel
	FailFirstRollback bool `json:"fail_first_rollback,omitempty"`
	// AfterSync (NETCONF closed loop, Hist.GNMI = "nc:..."): the sync has stored what T changed before the cancel
	AfterSync bool `json:"after_sync,omitempty"`
}

var prop = vlib.Prop[*Case]{
	ID: "C05",
	Rule: "case = confirmed prefix history (0..6 transactions as in C01) + one transaction T (single/multi-intent; create, change, shrink, re-prioritise, delete, orphan; shadowed or ruling) ended by TransactionCancel or by expiry of a 30 ms rollback timer, optionally after refused Confirm / Cancel calls naming another id, or with the first rollback refused by the device and the cancel repeated; " +
		"oracle = snapshot round trip: INTENDED dump (paths, owners, priorities, values) after the rollback equals the dump before T, TransactionCancel returns nil, and every path T touched (its new content and the stored content of the intents it names) has on the recording device the value or absence it had before T; " +
		"non-trivial = T modifies >=1 pre-existing intent and changes the device or the store; distinct = distinct case JSON",
	Gen: func(t *rapid.T) *Case {
		if os.Getenv("VERIF_C05_LOOP") == "nc" {
			// NETCONF closed loop (vlib/ncloop.go): the rollback is computed against a running store the real sync built
			// from the device's get-config replies
			c := &Case{Hist: vlib.GenNCLoop(t)}
			c.T = vlib.GenStep(t, vlib.HistGenOpts{Universe: vlib.UniNC, WithInit: true, AllowOrphan: true})
			c.Ending = rapid.SampledFrom([]string{"cancel", "cancel", "cancel", "timeout"}).Draw(t, "ending")
			c.AfterSync = rapid.Bool().Draw(t, "after-sync")
			return c
		}
		o := vlib.HistGenOpts{Universe: vlib.UniPlainNA, MinSteps: 0, MaxSteps: 6, WithInit: true, AllowOrphan: true}
		c := &Case{Hist: vlib.GenHistCase(t, o), T: vlib.GenStep(t, o)}
		c.Ending = rapid.SampledFrom([]string{"cancel", "cancel", "cancel", "timeout"}).Draw(t, "ending")
		c.FailFirstRollback = c.Ending == "cancel" && rapid.IntRange(0, 5).Draw(t, "fail-first-rollback") == 2
		if rapid.IntRange(0, 3).Draw(t, "noise") == 0 {
			c.Noise = rapid.SliceOfN(rapid.SampledFrom([]string{"cancel-foreign", "confirm-foreign"}), 1, 2).Draw(t, "noise-calls")
		}
		return c
	},
	Exec: Exec,
}

func harnessErr(err error) {
	fmt.Fprintf(os.Stderr, "HARNESS-ERROR %v\n", err)
	os.Exit(2)
}

func Exec(c *Case) (nontrivial bool, labels []string, fail *vlib.Failure) {
	if strings.HasPrefix(c.Hist.GNMI, "nc:") {
		return vlib.ExecNCLoop(c.Hist, "C05", false, &vlib.LoopRollback{T: c.T, Ending: c.Ending, AfterSync: c.AfterSync})
	}
	st := vlib.GetStats("C05")
	ctx := context.Background()
	env := vlib.MustEnv()
	h, err := vlib.NewHistEnv(ctx, env, c.Hist, vlib.HistEnvOpts{})
	if err != nil {
		harnessErr(err)
	}
	defer h.DS.Stop()
	for _, s := range c.Hist.Steps {
		if res := h.RunStep(s); !res.OK {
			st.Discard("prefix-step-refused")
			return false, []string{"discard"}, nil
		}
	}
	lab := map[string]bool{"ending-" + c.Ending: true}
	s0, err := vlib.DumpIntended(ctx, env.Cache, h.DSName)
	if err != nil {
		return false, keys(lab), vlib.Failf("C05:dump-inconsistent", "before T: %v", err)
	}
	d0 := vlib.NormPresence(h.Dev.Snapshot())
	mergeBefore := h.Model.Merge()
	if c.Ending == "timeout" {
		h.Timeout = 30 * time.Millisecond
	}
	res := h.SubmitStep(c.T)
	if !res.OK {
		st.Discard("T-refused")
		return false, []string{"discard"}, nil
	}
	// paths T touched
	touched := map[string]bool{}
	modifiesExisting := false
	for _, ri := range res.Resolved {
		for p := range ri.Leaves {
			touched[p] = true
		}
		if cur, ok := h.Model.Intents[ri.Name]; ok {
			modifiesExisting = true
			for p := range cur.Leaves {
				touched[p] = true
				if ds := h.Model.Definers(p); len(ds) > 1 {
					lab["touches-shadowed-or-shadowing-path"] = true
				}
			}
			if ri.Kind == "set" && ri.Prio != cur.Prio {
				lab["re-prioritise"] = true
			}
			if ri.Kind != "set" {
				lab["T-"+ri.Kind] = true
			}
		} else if ri.Kind == "set" {
			lab["T-creates-intent"] = true
		}
	}
	if len(res.Resolved) > 1 {
		lab["multi-intent"] = true
	}
	d1 := vlib.NormPresence(h.Dev.Snapshot())
	s1, _ := vlib.DumpIntended(ctx, env.Cache, h.DSName)
	changed := len(d0.Diff(d1)) > 0 || !s0.Equal(s1)
	nontrivial = modifiesExisting && changed
	where := fmt.Sprintf("T=%s ended by %s", describe(res), c.Ending)

	for _, nz := range c.Noise {
		// refused calls of another client must not change how T ends (their own effect is judged by C06)
		lab["noise-"+nz] = true
		if nz == "cancel-foreign" {
			_ = h.DS.TransactionCancel(ctx, "someone-else")
		} else {
			_ = h.DS.TransactionConfirm(ctx, "someone-else")
		}
	}
	switch c.Ending {
	case "cancel":
		if c.FailFirstRollback {
			// the device refuses the rollback once; the transaction stays open and the client cancels again
			h.Dev.FailAt = h.Dev.Calls() + 1
			err1 := h.DS.TransactionCancel(ctx, res.TxID)
			fired := h.Dev.FailFired()
			h.Dev.FailAt = 0
			if fired {
				lab["cancel-repeated-after-refused-rollback"] = true
				if err1 == nil {
					return nontrivial, keys(lab), vlib.Failf("C05:cancel-swallowed-device-error", "%s: the device refused the rollback, TransactionCancel returned no error", where)
				}
			} else if err1 == nil {
				// nothing had to be sent: the cancel is complete
				break
			}
		}
		if err := h.DS.TransactionCancel(ctx, res.TxID); err != nil {
			return nontrivial, keys(lab), vlib.Failf("C05:cancel-error", "%s: TransactionCancel returned %v", where, err)
		}
	case "timeout":
		deadline := time.Now().Add(5 * time.Second)
		for {
			_, open, _ := h.DS.VerifPeekTransaction()
			if !open {
				break
			}
			if time.Now().After(deadline) {
				return nontrivial, keys(lab), vlib.Failf("C05:timeout-no-rollback", "%s: 5 s after a 30 ms timeout the transaction is still open", where)
			}
			time.Sleep(2 * time.Millisecond)
		}
	}
	_, open, _ := h.DS.VerifPeekTransaction()
	if open {
		return nontrivial, keys(lab), vlib.Failf("C05:still-open", "%s: transaction slot still occupied after the rollback", where)
	}
	s2, err := vlib.DumpIntended(ctx, env.Cache, h.DSName)
	if err != nil {
		return nontrivial, keys(lab), vlib.Failf("C05:dump-inconsistent", "after rollback: %v", err)
	}
	if d := vlib.DiffKeys(s0.Keys(), s2.Keys()); len(d) > 0 {
		sig := "C05:intended-not-restored"
		return nontrivial, keys(lab), vlib.Failf(sig, "%s: intended store differs from its content before T (- before only, + after only; path|owner|prio|value):\n%s", where, strings.Join(d, "\n"))
	}
	d2 := vlib.NormPresence(h.Dev.Snapshot())
	var tp []string
	for p := range touched {
		tp = append(tp, p)
	}
	sort.Strings(tp)
	for _, p := range tp {
		b, bok := d0[p]
		a, aok := d2[p]
		if bok != aok || a != b {
			if vlib.MustCanon(p).IsKeyLeaf() && !aok == !bok {
				continue
			}
			sig := "C05:device-not-restored"
			if _, managed := mergeBefore[p]; !managed && bok {
				// the value was unmanaged running configuration before T took the path over
				sig = "C05:device-not-restored:unmanaged-value-lost"
			}
			return nontrivial, keys(lab), vlib.Failf(sig, "%s: path %s was %s before T and is %s after the rollback\nbefore: %s\nafter T: %s\nafter rollback: %s", where, p, show(b, bok), show(a, aok), vlib.JSON(d0), vlib.JSON(d1), vlib.JSON(d2))
		}
	}
	return nontrivial, keys(lab), nil
}

func show(v string, ok bool) string {
	if !ok {
		return "<absent>"
	}
	return fmt.Sprintf("%q", v)
}

func describe(r *vlib.StepResult) string {
	var s []string
	for _, ri := range r.Resolved {
		s = append(s, fmt.Sprintf("%s %s prio=%d %v", ri.Kind, ri.Name, ri.Prio, vlib.JSON(ri.Explicit)))
	}
	return strings.Join(s, "; ")
}

func keys(m map[string]bool) []string {
	var r []string
	for k := range m {
		r = append(r, k)
	}
	return r
}

func TestProp(t *testing.T)   { prop.Check(t) }
func TestReplay(t *testing.T) { prop.Replay(t) }
func TestKnown(t *testing.T)  { prop.Known(t) }
