// C01 — device converges to the highest-precedence merge of all live intents.
package c01

import (
	"context"

	"fmt"
	"github.com/sdcio/data-server/pkg/config"
	schemaClient "github.com/sdcio/data-server/pkg/datastore/clients/schema"
	"github.com/sdcio/data-server/pkg/datastore/target"
	"os"
	"strings"
	"testing"

	"pgregory.net/rapid"
	"verif/harness/vlib"
)

func TestMain(m *testing.M) { vlib.Main(m) }

func universe() *vlib.Universe {
	return vlib.UniPlainNA
}

var prop = vlib.Prop[*vlib.HistCase]{
	ID: "C01",
	Rule: "case = initial running config + history of 1..10 multi-intent TransactionSets over 4 owners with pairwise distinct priorities (plain subtree: 1..3-key lists, leaf-lists, presence containers, two namespaces; typed/string/JSON input forms); " +
		"oracle = reference merge model compared with the recording device after every successful step (A winner value, B stale paths gone, C unmanaged config untouched); " +
		"non-trivial = some step changes the winner of a path defined by >=2 live owners or removes/re-prioritises/shrinks an owner that shadows another; distinct = distinct case JSON",
	Gen: func(t *rapid.T) *vlib.HistCase {
		c := vlib.GenHistCase(t, vlib.HistGenOpts{Universe: universe(), MinSteps: 1, MaxSteps: 10, WithInit: true, AllowOrphan: true})
		if rapid.IntRange(0, 5).Draw(t, "gnmi-device") == 2 {
			c.GNMI = rapid.SampledFrom([]string{"proto", "json", "json_ietf"}).Draw(t, "gnmi-encoding")
			c.Loop = rapid.Bool().Draw(t, "closed-loop")
		}
		if os.Getenv("VERIF_C01_NCLOOP") != "" {
			return vlib.GenNCLoop(t)
		}
		if os.Getenv("VERIF_C01_LOOP") != "" {
			c = vlib.GenHistCase(t, vlib.HistGenOpts{Universe: vlib.UniLoop, MinSteps: 1, MaxSteps: 8, WithInit: true, AllowOrphan: true})
			c.GNMI = rapid.SampledFrom([]string{"proto", "json", "json_ietf"}).Draw(t, "gnmi-encoding-forced")
			c.Loop = true
		}
		return c
	},
	Exec: func(c *vlib.HistCase) (bool, []string, *vlib.Failure) {
		return Exec(c)
	},
}

// Exec runs one history and checks the C01 oracle after every successful step.
func Exec(c *vlib.HistCase) (nontrivial bool, labels []string, fail *vlib.Failure) {
	if strings.HasPrefix(c.GNMI, "nc:") {
		return vlib.ExecNCLoop(c, "C01", false, nil)
	}
	ctx := context.Background()
	env := vlib.MustEnv()
	var tee *vlib.GNMITee
	opts := vlib.HistEnvOpts{}
	if c.GNMI != "" {
		// the real gnmiTarget (target.New with a bufconn dialer) in front of an in-process gNMI device
		opts.WrapTarget = func(dev *vlib.Device) target.Target {
			gdev := vlib.NewGNMIDevice(dev.Snapshot())
			scb := schemaClient.NewSchemaClientBound(vlib.SchemaRef(), env.SchemaClient)
			real, err := target.New(ctx, "c01", &config.SBI{Type: "gnmi", Address: "bufnet", Port: 1, GnmiOptions: &config.SBIGnmiOptions{Encoding: c.GNMI}}, scb, gdev.DialOpts()...)
			if err != nil {
				fmt.Fprintf(os.Stderr, "HARNESS-ERROR gnmi target: %v\n", err)
				os.Exit(2)
			}
			tee = &vlib.GNMITee{Dev: dev, Real: real, GDev: gdev, Loop: c.Loop}
			gdev.NotifyOnSet = c.Loop
			return tee
		}
		if c.Loop {
			opts.DS.Sync = vlib.GNMILoopSyncConfig(c.GNMI)
		}
	}
	h, err := vlib.NewHistEnv(ctx, env, c, opts)
	if err != nil {
		fmt.Fprintf(os.Stderr, "HARNESS-ERROR %v\n", err)
		os.Exit(2)
	}
	defer h.DS.Stop()
	if tee != nil {
		defer tee.GDev.Stop()
	}
	lab := map[string]bool{}
	if c.GNMI != "" {
		lab["gnmi-device-"+c.GNMI] = true
	}
	if len(c.Initial) > 0 {
		lab["initial-running"] = true
	}
	var lp *vlib.GNMILoop
	if tee != nil && c.Loop {
		lab["closed-loop-real-sync"] = true
		var f *vlib.Failure
		lp, f = vlib.StartGNMILoop(h, tee, c.GNMI)
		defer lp.Stop()
		if f == nil {
			f = lp.CheckStore(h, "initial sync")
		}
		if f != nil {
			// "the running store mirrors the device" is C13's statement (judged there in the same loop)
			vlib.GetStats("C01").Discard("closed-loop-precondition:" + f.Sig)
			return false, []string{"discard"}, nil
		}
	}
	for i, st := range c.Steps {
		res := h.RunStep(st)
		if os.Getenv("VERIF_DEBUG") != "" {
			fmt.Printf("DEBUG step %d: %s ok=%v err=%s\n  lastrec=%s\n  dev=%s\n", i, describe(res), res.OK, res.ErrText(), vlib.JSON(h.Dev.LastRecord()), vlib.JSON(h.Dev.Snapshot()))
		}
		if !res.OK {
			// C01 speaks about successful transactions only; every request of this
			// generator is valid, so a refusal is counted and the history stops.
			lab["step-refused"] = true
			vlib.GetStats("C01").Discard("step-refused:" + firstWords(res.ErrText()))
			break
		}
		for _, l := range res.Effect.Labels {
			lab[l] = true
		}
		if res.Effect.WinnerChanged || res.Effect.ShadowerRemoved {
			nontrivial = true
		}
		if f := vlib.CheckConvergence(h, fmt.Sprintf("step %d (%s)", i, describe(res)), res); f != nil {
			return nontrivial, keys(lab), f
		}
		if tee != nil {
			if f := checkGNMI(tee, c.GNMI, fmt.Sprintf("step %d (%s)", i, describe(res)), lab); f != nil {
				return nontrivial, keys(lab), f
			}
		}
		if lp != nil {
			if f := lp.CheckStore(h, fmt.Sprintf("step %d (%s)", i, describe(res))); f != nil {
				vlib.GetStats("C01").Discard("closed-loop-precondition:" + f.Sig)
				return false, []string{"discard"}, nil
			}
		}
	}

	for _, p := range c.Palette {
		if strings.ContainsAny(p, "/_:=[] .*") {
			lab["separator-in-key"] = true
		}
	}
	return nontrivial, keys(lab), nil
}

// checkGNMI: what the real gnmiTarget delivered to the gNMI device (decoded by the harness) leaves that device with
// the same configuration as the recording device, which applied the proto rendering of the same tree.
func checkGNMI(tee *vlib.GNMITee, enc, where string, lab map[string]bool) *vlib.Failure {
	if errs := tee.TakeErrs(); len(errs) > 0 {
		return vlib.Failf("C01:gnmi-target-set-error:"+enc, "%s: gnmiTarget.Set failed: %v", where, errs)
	}
	want := vlib.NormPresence(tee.Dev.Snapshot())
	got := vlib.NormPresence(tee.GDev.Snapshot())
	if rec := tee.GDev.LastRecord(); rec != nil && len(rec.Anomalies) > 0 {
		onlyEmpty := true
		for _, a := range rec.Anomalies {
			if !strings.Contains(a, "without a value") {
				onlyEmpty = false
			}
		}
		if !onlyEmpty {
			return vlib.Failf("C01:gnmi-payload-anomaly:"+enc, "%s: the SetRequest the gNMI device received is malformed: %s", where, strings.Join(rec.Anomalies, "; "))
		}
		// proto encoding has no typed value for a presence container / type empty (recorded finding of C12):
		// such updates arrive without a value; the affected paths are left out of the comparison
		lab["gnmi-update-without-value"] = true
		for k := range want {
			if n := vlib.MustCanon(k).Node(); n != nil && (n.Kind == vlib.KContainer || n.Type == "empty") {
				delete(want, k)
				delete(got, k)
			}
		}
		want, got = vlib.NormPresence(want), vlib.NormPresence(got)
	}
	// presence containers are left out for every encoding: a JSON document cannot tell "container set explicitly and
	// through a child" from "through a child only", the two devices then differ in bookkeeping, not in content
	// (how presence containers are rendered in JSON vs proto is judged by C10)
	{
		for k := range want {
			if n := vlib.MustCanon(k).Node(); n != nil && (n.Kind == vlib.KContainer || n.Type == "empty") {
				delete(want, k)
				delete(got, k)
			}
		}
		for k := range got {
			if n := vlib.MustCanon(k).Node(); n != nil && (n.Kind == vlib.KContainer || n.Type == "empty") {
				delete(got, k)
			}
		}
	}
	if d := got.Diff(want); len(d) > 0 {
		return vlib.Failf("C01:gnmi-device-differs:"+enc, "%s: the device behind the real gnmiTarget (encoding %s) differs from the recording device (gNMI device vs recording device):\n  %s\nlast SetRequest decoded: %s", where, enc, strings.Join(d, "\n  "), vlib.JSON(tee.GDev.LastRecord()))
	}
	return nil
}

func describe(r *vlib.StepResult) string {
	var s []string
	for _, ri := range r.Resolved {
		s = append(s, fmt.Sprintf("%s %s prio=%d %v", ri.Kind, ri.Name, ri.Prio, vlib.JSON(ri.Explicit)))
	}
	return strings.Join(s, "; ")
}

func firstWords(s string) string {
	if len(s) > 60 {
		s = s[:60]
	}
	return s
}

func keys(m map[string]bool) []string {
	var r []string
	for k := range m {
		r = append(r, k)
	}
	return r
}

func TestProp(t *testing.T)   { prop.Check(t) }
func TestReplay(t *testing.T) { prop.Replay(t) }
func TestKnown(t *testing.T)  { prop.Known(t) }
