// C01 — device converges to the highest-precedence merge of all live intents.
package c01

import (
	"context"
	"fmt"
	"os"
	"strings"
	"testing"

	"pgregory.net/rapid"
	"verif/harness/vlib"
)

func TestMain(m *testing.M) { vlib.Main(m) }

func universe() *vlib.Universe {
	return vlib.UniPlainNA
}

var prop = vlib.Prop[*vlib.HistCase]{
	ID: "C01",
	Rule: "case = initial running config + history of 1..10 multi-intent TransactionSets over 4 owners with pairwise distinct priorities (plain subtree: 1..3-key lists, leaf-lists, presence containers, two namespaces; typed/string/JSON input forms); " +
		"oracle = reference merge model compared with the recording device after every successful step (A winner value, B stale paths gone, C unmanaged config untouched); " +
		"non-trivial = some step changes the winner of a path defined by >=2 live owners or removes/re-prioritises/shrinks an owner that shadows another; distinct = distinct case JSON",
	Gen: func(t *rapid.T) *vlib.HistCase {
		return vlib.GenHistCase(t, vlib.HistGenOpts{Universe: universe(), MinSteps: 1, MaxSteps: 10, WithInit: true, AllowOrphan: true})
	},
	Exec: func(c *vlib.HistCase) (bool, []string, *vlib.Failure) {
		return Exec(c)
	},
}

// Exec runs one history and checks the C01 oracle after every successful step.
func Exec(c *vlib.HistCase) (nontrivial bool, labels []string, fail *vlib.Failure) {
	ctx := context.Background()
	env := vlib.MustEnv()
	h, err := vlib.NewHistEnv(ctx, env, c, vlib.HistEnvOpts{})
	if err != nil {
		fmt.Fprintf(os.Stderr, "HARNESS-ERROR %v\n", err)
		os.Exit(2)
	}
	defer h.DS.Stop()
	lab := map[string]bool{}
	if len(c.Initial) > 0 {
		lab["initial-running"] = true
	}
	for i, st := range c.Steps {
		res := h.RunStep(st)
		if os.Getenv("VERIF_DEBUG") != "" {
			fmt.Printf("DEBUG step %d: %s ok=%v err=%s\n  lastrec=%s\n  dev=%s\n", i, describe(res), res.OK, res.ErrText(), vlib.JSON(h.Dev.LastRecord()), vlib.JSON(h.Dev.Snapshot()))
		}
		if !res.OK {
			// C01 speaks about successful transactions only; every request of this
			// generator is valid, so a refusal is counted and the history stops.
			lab["step-refused"] = true
			vlib.GetStats("C01").Discard("step-refused:" + firstWords(res.ErrText()))
			break
		}
		for _, l := range res.Effect.Labels {
			lab[l] = true
		}
		if res.Effect.WinnerChanged || res.Effect.ShadowerRemoved {
			nontrivial = true
		}
		if f := vlib.CheckConvergence(h, fmt.Sprintf("step %d (%s)", i, describe(res)), res); f != nil {
			return nontrivial, keys(lab), f
		}
	}
	for _, p := range c.Palette {
		if strings.ContainsAny(p, "/_:=[] .*") {
			lab["separator-in-key"] = true
		}
	}
	return nontrivial, keys(lab), nil
}

func describe(r *vlib.StepResult) string {
	var s []string
	for _, ri := range r.Resolved {
		s = append(s, fmt.Sprintf("%s %s prio=%d %v", ri.Kind, ri.Name, ri.Prio, vlib.JSON(ri.Explicit)))
	}
	return strings.Join(s, "; ")
}

func firstWords(s string) string {
	if len(s) > 60 {
		s = s[:60]
	}
	return s
}

func keys(m map[string]bool) []string {
	var r []string
	for k := range m {
		r = append(r, k)
	}
	return r
}

func TestProp(t *testing.T)   { prop.Check(t) }
func TestReplay(t *testing.T) { prop.Replay(t) }
func TestKnown(t *testing.T)  { prop.Known(t) }
