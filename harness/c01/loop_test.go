package c01

import (
	"context"
	"fmt"
	"strings"
	"sync"
	"time"

	"github.com/openconfig/gnmi/proto/gnmi"
	"github.com/sdcio/cache/proto/cachepb"
	"github.com/sdcio/data-server/pkg/config"
	"github.com/sdcio/data-server/pkg/datastore"
	"verif/harness/vlib"
)

// closed loop: the datastore talks to an in-process gNMI device through the REAL gnmiTarget in both directions -
// gnmiTarget.Set delivers every change, gnmiTarget.Sync holds an on-change subscription whose notifications the real
// Datastore.Sync loop writes to the running store while the transactions run. The transactions therefore compute
// their diffs against a running store that the device's own reports built, as in production.
//
// After every successful step and once the device's reports are stored:
//   (1) the C01 oracle on the recording device and on the gNMI device (as in the open-loop mode),
//   (2) the running store equals what the gNMI device holds (what it can report in the encoding),
// and at the end (3) re-submitting every live intent verbatim changes nothing on either device.

type loop struct {
	name   string
	enc    gnmi.Encoding
	tee    *vlib.GNMITee
	mu     sync.Mutex
	done   int
	cancel context.CancelFunc
}

func loopSyncConfig(enc string) *config.Sync {
	return &config.Sync{Validate: false, Buffer: 1000, WriteWorkers: 1, Config: []*config.SyncProtocol{
		{Name: "cfg", Protocol: "gnmi", Mode: "on-change", Encoding: enc, Paths: []string{"/plain"}, Interval: 100 * time.Millisecond},
		{Name: "ty", Protocol: "gnmi", Mode: "on-change", Encoding: enc, Paths: []string{"/types"}, Interval: 100 * time.Millisecond},
	}}
}

func startLoop(h *vlib.HistEnv, tee *vlib.GNMITee, enc string) (*loop, *vlib.Failure) {
	l := &loop{name: h.DSName, tee: tee}
	l.enc = gnmi.Encoding(gnmi.Encoding_value[map[string]string{"json": "JSON", "json_ietf": "JSON_IETF", "proto": "PROTO"}[enc]])
	datastore.VerifSyncMsgDone = func(n string) {
		if n == l.name {
			l.mu.Lock()
			l.done++
			l.mu.Unlock()
		}
	}
	ctx, cancel := context.WithCancel(h.Ctx)
	l.cancel = cancel
	go h.DS.Sync(ctx)
	if f := l.wait("subscription", func() bool { return tee.GDev.Subscribers() >= 2 }); f != nil {
		return l, f
	}
	return l, l.quiescent("initial sync")
}

func (l *loop) stop() {
	l.cancel()
	datastore.VerifSyncMsgDone = nil
}

func (l *loop) getDone() int { l.mu.Lock(); defer l.mu.Unlock(); return l.done }

func (l *loop) wait(what string, cond func() bool) *vlib.Failure {
	dl := time.Now().Add(20 * time.Second)
	for !cond() {
		if time.Now().After(dl) {
			_, _, q, s := l.tee.GDev.Counters()
			return vlib.Failf("C01:loop:sync-stalled", "%s: %d notifications queued, %d sent, %d stored, %d subscribers", what, q, s, l.getDone(), l.tee.GDev.Subscribers())
		}
		time.Sleep(200 * time.Microsecond)
	}
	return nil
}

// quiescent: everything the device reported so far is stored
func (l *loop) quiescent(what string) *vlib.Failure {
	return l.wait(what, func() bool { _, _, q, s := l.tee.GDev.Counters(); return s == q && l.getDone() >= s })
}

// checkStore: the running store equals what the gNMI device holds
func (l *loop) checkStore(h *vlib.HistEnv, where string) *vlib.Failure {
	if f := l.quiescent(where); f != nil {
		return f
	}
	dump, err := vlib.DumpFlat(context.Background(), h.Env.Cache, h.DSName, cachepb.Store_CONFIG)
	if err != nil {
		return vlib.Failf("C01:loop:dump", "%v", err)
	}
	got := vlib.Conf{}
	for _, e := range dump {
		if e.Raw != "" {
			return vlib.Failf("C01:loop:undecodable-stored-value", "%s: the running store holds %s = %s", where, e.Canon, e.Raw)
		}
		got[e.Canon] = e.Den
	}
	want := l.tee.GDev.Snapshot()
	// presence containers and values the encoding cannot carry are bookkeeping of whoever wrote last (Set or sync)
	drop := func(c vlib.Conf) {
		for k, v := range c {
			p := vlib.MustCanon(k)
			n := p.Node()
			if n == nil || n.Kind == vlib.KContainer || n.Type == "empty" || (!p.IsKeyLeaf() && !vlib.GNMIRepresentable(p, v, l.enc)) {
				delete(c, k)
			}
		}
	}
	drop(got)
	drop(want)
	// key leaves: only those of entries that hold something else
	for _, c := range []vlib.Conf{got, want} {
		for k := range c {
			p := vlib.MustCanon(k)
			if !p.IsKeyLeaf() {
				continue
			}
			entry, other := p[:len(p)-1], false
			for o := range c {
				q := vlib.MustCanon(o)
				if !q.IsKeyLeaf() && entry.IsStrictAncestorOf(q) {
					other = true
					break
				}
			}
			if !other {
				delete(c, k)
			}
		}
	}
	if d := got.Diff(want); len(d) > 0 {
		sig := "C01:loop:running-differs-from-device"
		switch {
		case strings.Contains(d[0], "vs <absent>"):
			sig += ":extra-path"
		case strings.Contains(d[0], "<absent> vs"):
			sig += ":missing-path"
		default:
			sig += ":wrong-value"
		}
		return vlib.Failf(sig, "%s: closed loop over the real gnmiTarget (%s): the running store differs from the device (store vs device):\n  %s\nstore: %s\ndevice: %s", where, l.enc, strings.Join(d, "\n  "), vlib.JSON(got), vlib.JSON(want))
	}
	return nil
}

// reapply: every live intent re-submitted verbatim in one transaction changes nothing
func (l *loop) reapply(h *vlib.HistEnv, where string) *vlib.Failure {
	var names []string
	for n := range h.Model.Intents {
		names = append(names, n)
	}
	if len(names) == 0 {
		return nil
	}
	// only judged when the device holds the merge (otherwise a correction is legitimate; C01 reports that)
	if vlib.CheckConvergenceConf(h.Model, h.Dev.Snapshot(), where) != nil {
		return nil
	}
	before, gBefore := h.Dev.Snapshot(), l.tee.GDev.Snapshot()
	calls := h.Dev.Calls()
	rsp, err := h.ReapplyAll("loop-reapply")
	if err != nil {
		return vlib.Failf("C01:loop:reapply-refused", "%s: re-submitting the live intents verbatim was refused: %v", where, err)
	}
	_ = rsp
	if d := h.Dev.Snapshot().Diff(before); len(d) > 0 {
		return vlib.Failf("C01:loop:reapply-changes-device", "%s: re-submitting the live intents verbatim changed the device (after vs before):\n  %s\n%d device calls, last: %s", where, strings.Join(d, "\n  "), h.Dev.Calls()-calls, vlib.JSON(h.Dev.LastRecord()))
	}
	if d := l.tee.GDev.Snapshot().Diff(gBefore); len(d) > 0 {
		return vlib.Failf("C01:loop:reapply-changes-device", "%s: re-submitting the live intents verbatim changed the gNMI device (after vs before):\n  %s", where, strings.Join(d, "\n  "))
	}
	return l.checkStore(h, where+" after the re-application")
}

var _ = fmt.Sprintf
