// C14 — GetData returns exactly what is stored under the requested paths.
package c14

import (
	"context"
	"fmt"
	"github.com/sdcio/data-server/pkg/datastore"
	"github.com/sdcio/data-server/pkg/server"
	"google.golang.org/grpc/peer"
	"os"
	"sort"
	"strings"
	"testing"
	"time"

	"github.com/sdcio/cache/proto/cachepb"
	sdcpb "github.com/sdcio/sdc-protos/sdcpb"
	"pgregory.net/rapid"
	"verif/harness/vlib"
)

func TestMain(m *testing.M) { vlib.Main(m) }

var tmpls = []vlib.Tmpl{
	vlib.T("plain/descr"), vlib.T("plain/descr-long"), vlib.T("plain/a"), vlib.T("plain/a_b"), vlib.T("plain/num"), vlib.T("plain/tags"), vlib.T("plain/pres"),
	vlib.T("plain/sub/x"), vlib.T("plain/l1/descr"), vlib.T("plain/l1/descr-long"), vlib.T("plain/l1/mtu"), vlib.T("plain/l1/tags"), vlib.T("plain/l1/cfg/mode"),
	vlib.T("plain/l1/sub/v"), vlib.T("plain/l1/oper"), vlib.T("plain/l2a/v"), vlib.T("plain/l2a/w"), vlib.T("plain/ifc/v"), vlib.T("plain/ifc-ext/v"), vlib.T("state/counter"), vlib.T("state/oper"),
	vlib.T("plain/extleaf"), vlib.T("plain/l1/extattr"), vlib.T("plain/l2z/v"),
	// (appended) members of ONE case of a choice (a valid running configuration holds one case) and non-members
	vlib.T("chc/ca"), vlib.T("chc/ca2"), vlib.T("chc/other"), vlib.T("chc/ca-x"), vlib.T("chc/nest/oi/na"),
}
var uni = &vlib.Universe{Name: "getdata", Tmpls: tmpls}
var palette = []string{"eth1", "eth10", "eth1/1"}

// palettes: the key values of a case (index 0 = the default ones); separators and characters with a meaning in
// paths: '/', ' ', '_', ':' (IPv6 / MAC addresses), brackets, '=', '*'
var palettes = [][]string{{"eth1", "eth10", "eth1/1"}, {"x:y", "fe80::1", "y"}, {"a", "a b", "b a"}, {"a_b", "a", "b_a"}, {"[z]", "k=v", "c.d"}, {"a", "a/b", "b/a"}, {"a+b", "aab", "a(b|c)"}}

type PathSel struct {
	Leaf     vlib.LeafSel `json:"leaf"`
	Up       int          `json:"up"`        // truncate this many elements from the leaf
	DropKeys int          `json:"drop_keys"` // bitmask of keys to drop from the last list element
	Unknown  bool         `json:"unknown,omitempty"`
	// DropOuter: omit all keys of the first list element while the path continues below it
	DropOuter bool `json:"drop_outer,omitempty"`
	// Masks: per list element of the path (in path order) a bitmask of keys to omit (sorted key names)
	Masks []int `json:"masks,omitempty"`
}

type Case struct {
	// Pal: index into palettes
	Pal int `json:"pal,omitempty"`
	Running []vlib.LeafSel   `json:"running"`        // CONFIG / STATE content
	Intents [][]vlib.LeafSel `json:"intents"`        // up to 2 owners' content (INTENDED)
	Paths   []PathSel        `json:"paths"`          // empty = no path given
	Root    bool             `json:"root,omitempty"` // request the root path
	Enc     int32            `json:"enc"`            // sdcpb.Encoding value (0..3 valid, 4 invalid)
	DSType  string           `json:"ds_type"`        // main | intended
	DType   int32            `json:"dtype"`          // ALL CONFIG STATE
	Owner   int              `json:"owner"`          // intended: -1 = none (highest precedence), 0/1 = that owner with its priority
	// ViaServer: call the gRPC handler Server.GetData on a harness stream instead of Datastore.Get
	ViaServer bool `json:"via_server,omitempty"`
}

// twins adds, for some of the leaves, a sibling under a list entry whose key values differ in some positions
// (the key pools hold textually related values: eth1 / eth10 / eth1/1 and 1 / 10)
func twins(t *rapid.T, sels []vlib.LeafSel, label string) []vlib.LeafSel {
	out := sels
	for _, s := range sels {
		if len(s.K) == 0 || rapid.IntRange(0, 2).Draw(t, label+"-twin") != 0 {
			continue
		}
		tw := vlib.LeafSel{T: s.T, V: rapid.IntRange(0, 2).Draw(t, label+"-tv")}
		for _, k := range s.K {
			if rapid.Bool().Draw(t, label+"-tk") {
				k = (k + 1 + rapid.IntRange(0, 1).Draw(t, label+"-tki")) % 3
			}
			tw.K = append(tw.K, k)
		}
		out = append(out, tw)
	}
	return out
}

func gen(t *rapid.T) *Case {
	c := &Case{Running: twins(t, vlib.GenLeafSels(t, uni, 0, 10, "run"), "run")}
	c.Pal = rapid.SampledFrom([]int{0, 0, 0, 1, 2, 3, 4, 5, 6}).Draw(t, "palette")
	ni := rapid.IntRange(0, 2).Draw(t, "nintents")
	for i := 0; i < ni; i++ {
		c.Intents = append(c.Intents, vlib.GenLeafSels(t, uni, 1, 6, "int"))
	}
	np := rapid.IntRange(0, 3).Draw(t, "npaths")
	for i := 0; i < np; i++ {
		ps := PathSel{Leaf: vlib.GenLeafSels(t, uni, 1, 1, "p")[0], Up: rapid.IntRange(0, 3).Draw(t, "up")}
		// most requests address something that is stored
		var stored []vlib.LeafSel
		stored = append(stored, c.Running...)
		for _, in := range c.Intents {
			stored = append(stored, in...)
		}
		if len(stored) > 0 && rapid.IntRange(0, 2).Draw(t, "stored-path") != 0 {
			ps.Leaf = stored[rapid.IntRange(0, len(stored)-1).Draw(t, "stored-ix")]
		}
		if rapid.IntRange(0, 3).Draw(t, "partial") == 0 {
			ps.DropKeys = rapid.IntRange(1, 3).Draw(t, "drop")
		}
		ps.Unknown = rapid.IntRange(0, 9).Draw(t, "unknown") == 0
		ps.DropOuter = rapid.IntRange(0, 4).Draw(t, "drop-outer") == 0
		if rapid.IntRange(0, 2).Draw(t, "masks") == 0 {
			ps.Masks = rapid.SliceOfN(rapid.SampledFrom([]int{0, 0, 1, 2, 3, 7}), 1, 3).Draw(t, "mask")
		}
		c.Paths = append(c.Paths, ps)
	}
	if rapid.IntRange(0, 7).Draw(t, "wildcard-scenario") == 0 {
		// a request that omits the key of an outer list, with stored siblings whose key value or name
		// textually extends the requested one below that list
		k := rapid.IntRange(0, 2).Draw(t, "ws-key")
		if shape := rapid.IntRange(0, 2).Draw(t, "ws-shape3"); shape == 2 {
			// a two-key list addressed by its alphabetically second key only: /plain/l2a[b=B] with entries that differ in b
			// (template 15 = plain/l2a/v, keys a, b)
			k2 := rapid.IntRange(0, 2).Draw(t, "ws-key2")
			c.Running = append(c.Running, vlib.LeafSel{T: 15, K: []int{k, k2}, V: 0}, vlib.LeafSel{T: 15, K: []int{k, (k2 + 1) % 3}, V: 1},
				vlib.LeafSel{T: 15, K: []int{(k + 1) % 3, k2}, V: 2})
			c.Paths = append(c.Paths, PathSel{Leaf: vlib.LeafSel{T: 15, K: []int{k, k2}}, Up: rapid.IntRange(0, 1).Draw(t, "ws-up"), DropKeys: 1})
		} else if shape == 1 {
			// /plain/l1/sub[id=1](/v) with sub[id=10] stored next to it (template 13 = plain/l1/sub/v; ids 1, 2, 10)
			c.Running = append(c.Running, vlib.LeafSel{T: 13, K: []int{k, 0}, V: 0}, vlib.LeafSel{T: 13, K: []int{k, 2}, V: 1})
			c.Paths = append(c.Paths, PathSel{Leaf: vlib.LeafSel{T: 13, K: []int{k, 0}}, Up: rapid.IntRange(0, 1).Draw(t, "ws-up"), Masks: []int{1}})
		} else {
			// /plain/l1/descr with descr-long stored (templates 8 and 9)
			c.Running = append(c.Running, vlib.LeafSel{T: 8, K: []int{k}, V: 0}, vlib.LeafSel{T: 9, K: []int{rapid.IntRange(0, 2).Draw(t, "ws-key2")}, V: 1})
			c.Paths = append(c.Paths, PathSel{Leaf: vlib.LeafSel{T: 8, K: []int{k}}, Masks: []int{1}})
		}
		np = len(c.Paths)
	}
	c.ViaServer = rapid.Bool().Draw(t, "via-server")
	c.Root = np == 0 || rapid.IntRange(0, 5).Draw(t, "root") == 0
	c.Enc = int32(rapid.SampledFrom([]int{0, 1, 2, 3, 0, 1, 2, 3, 4}).Draw(t, "enc"))
	c.DSType = rapid.SampledFrom([]string{"main", "main", "main", "intended"}).Draw(t, "ds")
	c.DType = int32(rapid.IntRange(0, 2).Draw(t, "dtype"))
	c.Owner = rapid.IntRange(-1, 1).Draw(t, "owner")
	if c.DSType == "intended" && rapid.IntRange(0, 2).Draw(t, "leaf-paths-only") != 0 {
		// subtree requests on INTENDED are a known finding; keep most INTENDED requests on exact leaf paths
		if len(c.Paths) == 0 {
			c.Paths = []PathSel{{Leaf: vlib.GenLeafSels(t, uni, 1, 1, "lp")[0]}}
		}
		for i := range c.Paths {
			c.Paths[i].Up, c.Paths[i].DropKeys, c.Paths[i].DropOuter, c.Paths[i].Masks = 0, 0, false, nil
		}
		c.Root = false
	}
	return c
}

var prop = vlib.Prop[*Case]{
	ID: "C14",
	Rule: "case = store content (CONFIG / STATE written as a sync would, INTENDED through transactions of up to 2 owners; names eth1 / eth10 / eth1/1, descr / descr-long, a / a_b, two namespaces, a non-alphabetical 2-key list) x request (0..3 paths: root, containers, list entries with full or partial keys, leaves, unknown nodes) x encoding (STRING, PROTO, JSON, JSON_IETF, one invalid) x datastore MAIN / INTENDED(owner, priority) x data type ALL / CONFIG / STATE; " +
		"oracle = ground truth is the full dump of the selected store(s) filtered structurally (element-wise, key-aware, missing key = wildcard); the decoded response must be exactly that set of (path, denoted value); for MAIN all four encodings are requested and must agree; unknown paths and unsupported combinations must yield an error and no data message; " +
		"non-trivial = a stored sibling's name or key value textually extends a requested one, or a partial-key request, or a multi-path request; distinct = distinct case JSON",
	Gen:  gen,
	Exec: Exec,
}

func harnessErr(err error) {
	fmt.Fprintf(os.Stderr, "HARNESS-ERROR %v\n", err)
	os.Exit(2)
}

func resolvePath(ps PathSel) vlib.IPath {
	p, _ := uni.Resolve(ps.Leaf, palette)
	for i := 0; i < ps.Up && len(p) > 1; i++ {
		p = p[:len(p)-1]
	}
	p = p.Clone()
	if ps.DropKeys != 0 {
		// drop keys from the last list element of the path
		for i := len(p) - 1; i >= 0; i-- {
			if len(p[i].Keys) > 0 {
				names := make([]string, 0, len(p[i].Keys))
				for k := range p[i].Keys {
					names = append(names, k)
				}
				sort.Strings(names)
				for j, k := range names {
					if ps.DropKeys&(1<<j) != 0 {
						delete(p[i].Keys, k)
					}
				}
				break
			}
		}
	}
	li := 0
	for i := range p {
		if len(p[i].Keys) == 0 {
			continue
		}
		if li < len(ps.Masks) && ps.Masks[li] != 0 {
			names := make([]string, 0, len(p[i].Keys))
			for k := range p[i].Keys {
				names = append(names, k)
			}
			sort.Strings(names)
			for j, k := range names {
				if ps.Masks[li]&(1<<j) != 0 {
					delete(p[i].Keys, k)
				}
			}
		}
		li++
	}
	if ps.DropOuter {
		for i := 0; i < len(p)-1; i++ {
			if len(p[i].Keys) > 0 {
				p[i].Keys = nil
				break
			}
		}
	}
	if ps.Unknown {
		p = append(p, vlib.PE{Name: "nosuch"})
	}
	return p
}

type reply struct {
	conf      vlib.Conf
	msgs      int
	err       error
	anomalies []string
}

func get(ctx context.Context, h *vlib.HistEnv, req *sdcpb.GetDataRequest) reply {
	r := reply{conf: vlib.Conf{}}
	ch := make(chan *sdcpb.GetDataResponse)
	done := make(chan struct{})
	go func() {
		defer close(done)
		for rsp := range ch {
			r.msgs++
			for _, n := range rsp.GetNotification() {
				for _, u := range n.GetUpdate() {
					switch v := u.GetValue().GetValue().(type) {
					case *sdcpb.TypedValue_JsonVal:
						conf, an := vlib.DecodeJSONDoc(string(v.JsonVal), req.GetEncoding() == sdcpb.Encoding_JSON_IETF)
						r.anomalies = append(r.anomalies, an...)
						for k, d := range conf {
							r.conf[k] = d
						}
						continue
					}
					p := vlib.FromSdcpb(u.GetPath())
					n := p.Node()
					if n == nil {
						r.anomalies = append(r.anomalies, "unknown path "+p.Canon())
						continue
					}
					d, err := vlib.DenoteTV(n, u.GetValue())
					if err != nil {
						r.anomalies = append(r.anomalies, fmt.Sprintf("%s: %v", p.Canon(), err))
						continue
					}
					if old, dup := r.conf[p.Canon()]; dup && old != d {
						r.anomalies = append(r.anomalies, fmt.Sprintf("%s returned twice with different values %q / %q", p.Canon(), old, d))
					}
					r.conf[p.Canon()] = d
				}
			}
		}
	}()
	cctx, cancel := context.WithTimeout(ctx, 20*time.Second)
	defer cancel()
	if viaServer {
		// the gRPC handler (hook H7) on a harness stream: what counts is what was sent when the handler returns
		srv := server.VerifNewServer(ctx, map[string]*datastore.Datastore{h.DSName: h.DS})
		st := vlib.NewFakeStream[sdcpb.GetDataResponse](peer.NewContext(cctx, &peer.Peer{Addr: addr("10.0.0.1:5000")}))
		r.err = srv.GetData(req, st)
		msgs := st.Messages()
		for _, m := range msgs {
			ch <- m
		}
		close(ch)
		<-done
		return r
	}
	r.err = h.DS.Get(cctx, req, ch)
	<-done
	return r
}

type addr string

func (a addr) Network() string { return "tcp" }
func (a addr) String() string  { return string(a) }

// viaServer: requests go through Server.GetData instead of Datastore.Get (set per case)
var viaServer bool

func dropKeyLeaves(c vlib.Conf) vlib.Conf {
	r := vlib.Conf{}
	for k, v := range c {
		if !vlib.MustCanon(k).IsKeyLeaf() {
			r[k] = v
		}
	}
	return r
}

func Exec(c *Case) (nontrivial bool, labels []string, fail *vlib.Failure) {
	palette = palettes[c.Pal%len(palettes)]
	ctx := context.Background()
	env := vlib.MustEnv()
	viaServer = c.ViaServer
	hc := &vlib.HistCase{Universe: "plain", Palette: palette}
	h, err := vlib.NewHistEnv(ctx, env, hc, vlib.HistEnvOpts{})
	if err != nil {
		harnessErr(err)
	}
	defer h.DS.Stop()
	lab := map[string]bool{}
	// fill CONFIG / STATE as a validated sync would
	cfg, st := vlib.Conf{}, vlib.Conf{}
	for _, sel := range c.Running {
		p, v := uni.Resolve(sel, palette)
		if p.Node().State {
			st[p.Canon()] = v
		} else {
			cfg[p.Canon()] = v
		}
		for _, kl := range p.ImpliedKeyLeaves() {
			cfg[kl.Path.Canon()] = kl.Value
		}
	}
	if err := vlib.WriteConfigStore(ctx, env.Cache, h.DSName, cfg); err != nil {
		harnessErr(err)
	}
	if err := vlib.WriteStore(ctx, env.Cache, h.DSName, cachepb.Store_STATE, st); err != nil {
		harnessErr(err)
	}
	// fill INTENDED through transactions
	type own struct {
		name string
		prio int32
		conf vlib.Conf
	}
	var owners []own
	for i, sels := range c.Intents {
		conf := vlib.Conf{}
		for _, sel := range sels {
			p, v := uni.Resolve(sel, palette)
			if p.Node().State {
				continue
			}
			conf[p.Canon()] = v
		}
		if len(conf) == 0 {
			continue
		}
		o := own{name: fmt.Sprintf("own%d", i), prio: int32(10 + 10*i), conf: conf}
		ri := vlib.ResolvedIntent{Name: o.name, Kind: "set", Prio: o.prio, Explicit: conf, Form: "typed"}
		r, err := vlib.BuildIntentRequest(ri)
		if err != nil {
			harnessErr(err)
		}
		rsp, err := h.SetRequest(o.name, []*sdcpb.TransactionIntent{r}, nil, false)
		if err != nil || len(vlib.IntentErrorsOf(rsp)) > 0 {
			vlib.GetStats("C14").Discard("intent-refused")
			return false, []string{"discard"}, nil
		}
		_ = h.DS.TransactionConfirm(ctx, o.name)
		owners = append(owners, o)
	}
	// ground truth from full dumps
	cfgDump, _ := vlib.DumpFlat(ctx, env.Cache, h.DSName, cachepb.Store_CONFIG)
	stDump, _ := vlib.DumpFlat(ctx, env.Cache, h.DSName, cachepb.Store_STATE)
	intDump, err := vlib.DumpIntended(ctx, env.Cache, h.DSName)
	if err != nil {
		harnessErr(err)
	}
	// request
	var paths []vlib.IPath
	unknown := false
	if c.Root {
		paths = append(paths, vlib.IPath{})
	}
	for _, ps := range c.Paths {
		paths = append(paths, resolvePath(ps))
		if ps.Unknown {
			unknown = true
		}
		anyMask := false
		for _, m := range ps.Masks {
			anyMask = anyMask || m != 0
		}
		if ps.DropOuter || anyMask {
			lab["keys-omitted-above-the-last-element"] = true
		}
		if ps.DropKeys != 0 || ps.DropOuter || anyMask {
			lab["partial-keys"] = true
		}
	}
	subtree := false
	for _, p := range paths {
		if n := p.Node(); len(p) == 0 || n == nil || !n.IsLeafish() {
			subtree = true
			lab["subtree-request"] = true
		}
	}
	if len(paths) > 1 {
		lab["multi-path"] = true
		nontrivial = true
	}
	req := &sdcpb.GetDataRequest{Name: h.DSName, DataType: sdcpb.DataType(c.DType), Encoding: sdcpb.Encoding(c.Enc)}
	for _, p := range paths {
		req.Path = append(req.Path, p.Sdcpb())
	}
	expected := vlib.Conf{}
	covers := func(k string) bool {
		q := vlib.MustCanon(k)
		for _, p := range paths {
			if p.Covers(q) {
				return true
			}
		}
		return false
	}
	unsupported := c.Enc > 3
	switch c.DSType {
	case "main":
		req.Datastore = &sdcpb.DataStore{Type: sdcpb.Type_MAIN}
		lab["main"] = true
		if c.DType == int32(sdcpb.DataType_ALL) || c.DType == int32(sdcpb.DataType_CONFIG) {
			for _, e := range cfgDump {
				if covers(e.Canon) {
					expected[e.Canon] = e.Den
				}
			}
		}
		if c.DType == int32(sdcpb.DataType_ALL) || c.DType == int32(sdcpb.DataType_STATE) {
			for _, e := range stDump {
				if covers(e.Canon) {
					expected[e.Canon] = e.Den
				}
			}
		}
	case "intended":
		lab["intended"] = true
		ds := &sdcpb.DataStore{Type: sdcpb.Type_INTENDED}
		if c.Owner >= 0 && c.Owner < len(owners) {
			ds.Owner, ds.Priority = owners[c.Owner].name, owners[c.Owner].prio
			lab["intended-owner"] = true
			for _, e := range intDump {
				if e.Owner == ds.Owner && e.Priority == ds.Priority && covers(e.Canon) {
					expected[e.Canon] = e.Den
				}
			}
		} else {
			lab["intended-highest"] = true
			best := map[string]int32{}
			for _, e := range intDump {
				if !covers(e.Canon) {
					continue
				}
				if b, ok := best[e.Canon]; !ok || e.Priority < b {
					best[e.Canon] = e.Priority
					expected[e.Canon] = e.Den
				}
			}
		}
		req.Datastore = ds
		if c.DType == int32(sdcpb.DataType_STATE) {
			unsupported = true
		}
	}
	// textual-extension class
	for _, p := range paths {
		if len(p) == 0 {
			continue
		}
		pj := strings.Join(p.Slice(true), ",")
		for _, d := range []vlib.StoreDump{cfgDump, stDump, intDump} {
			for _, e := range d {
				kj := strings.Join(vlib.MustCanon(e.Canon).Slice(true), ",")
				if strings.HasPrefix(kj, pj) && !p.Covers(vlib.MustCanon(e.Canon)) {
					lab["textual-extension-stored"] = true
					nontrivial = true
				}
			}
		}
	}
	if lab["partial-keys"] {
		nontrivial = true
	}
	where := fmt.Sprintf("GetData(ds=%s owner=%q prio=%d dtype=%s enc=%s paths=%v)", c.DSType, req.Datastore.GetOwner(), req.Datastore.GetPriority(), req.DataType, req.Encoding, paths)
	encName := strings.ToLower(req.Encoding.String())

	r := get(ctx, h, req)
	if unknown || unsupported {
		lab["must-fail"] = true
		if r.err == nil {
			what := "unknown-path"
			if unsupported {
				what = "unsupported-combination"
			}
			return nontrivial, keys(lab), vlib.Failf("C14:no-error:"+what, "%s returned no error (and %d data messages)", where, r.msgs)
		}
		if r.msgs != 0 {
			return nontrivial, keys(lab), vlib.Failf("C14:partial-data-before-error", "%s failed with %v but delivered %d data messages first", where, r.err, r.msgs)
		}
		return nontrivial, keys(lab), nil
	}
	if r.err != nil {
		return nontrivial, keys(lab), vlib.Failf("C14:valid-request-error:"+c.DSType+":"+encName, "%s failed: %v", where, r.err)
	}
	if len(r.anomalies) > 0 {
		return nontrivial, keys(lab), vlib.Failf("C14:undecodable-response:"+c.DSType+":"+encName, "%s: %v", where, r.anomalies)
	}
	cmp := func(got vlib.Conf, what string) *vlib.Failure {
		d := dropKeyLeaves(got).Diff(dropKeyLeaves(expected))
		if len(d) == 0 {
			return nil
		}
		kind := "wrong-value"
		switch {
		case strings.Contains(d[0], "vs <absent>"):
			kind = "extra-leaf"
		case strings.Contains(d[0], "<absent> vs"):
			kind = "missing-leaf"
		}
		sig := fmt.Sprintf("C14:%s:%s:%s", kind, c.DSType, what)
		if c.DSType == "intended" && lab["intended-owner"] {
			sig += ":owner-selected"
		}
		if lab["partial-keys"] {
			sig += ":partial-keys"
		}
		if subtree {
			sig += ":subtree-request"
		}
		return vlib.Failf(sig, "%s (response vs store content under the paths):\n  %s\nresponse: %s\nexpected: %s", where, strings.Join(d, "\n  "), vlib.JSON(got), vlib.JSON(expected))
	}
	if f := cmp(r.conf, encName); f != nil {
		return nontrivial, keys(lab), f
	}
	// MAIN: the four encodings agree
	if c.DSType == "main" {
		for e := int32(0); e <= 3; e++ {
			if e == c.Enc {
				continue
			}
			req2 := &sdcpb.GetDataRequest{Name: req.Name, DataType: req.DataType, Encoding: sdcpb.Encoding(e), Datastore: req.Datastore, Path: req.Path}
			r2 := get(ctx, h, req2)
			en := strings.ToLower(req2.Encoding.String())
			if r2.err != nil {
				return nontrivial, keys(lab), vlib.Failf("C14:valid-request-error:main:"+en, "%s in encoding %s failed: %v", where, en, r2.err)
			}
			if len(r2.anomalies) > 0 {
				return nontrivial, keys(lab), vlib.Failf("C14:undecodable-response:main:"+en, "%s in encoding %s: %v", where, en, r2.anomalies)
			}
			if f := cmp(r2.conf, en); f != nil {
				return nontrivial, keys(lab), f
			}
		}
		lab["four-encodings-compared"] = true
	}
	return nontrivial, keys(lab), nil
}

func keys(m map[string]bool) []string {
	var r []string
	for k := range m {
		r = append(r, k)
	}
	return r
}

func TestProp(t *testing.T)   { prop.Check(t) }
func TestReplay(t *testing.T) { prop.Replay(t) }
func TestKnown(t *testing.T)  { prop.Known(t) }
