// C07 — a failed apply is all-or-nothing and a retry converges (fault enumeration).
package c07

import (
	"time"
	"context"
	"errors"
	"fmt"
	"os"
	"strconv"
	"strings"
	"testing"

	"github.com/sdcio/cache/proto/cachepb"
	sdcpb "github.com/sdcio/sdc-protos/sdcpb"
	"pgregory.net/rapid"
	"verif/harness/vlib"
)

func TestMain(m *testing.M) { vlib.Main(m) }

type Case struct {
	Hist    *vlib.HistCase `json:"hist"`   // prefix
	T       vlib.Step      `json:"t"`      // the transaction that meets the fault
	Target  string         `json:"target"` // device | cache | schema
	Kind    string         `json:"kind"`   // error | restart
	Point   int            `json:"point"`  // index into the fault-free call list of that collaborator (mod its length); -1 = enumerate all
	// Op: "" = the fault meets TransactionSet(T); "cancel" = T is applied fault-free and the fault meets the rollback
	// transaction of TransactionCancel (error faults only; an open transaction does not survive a restart by design)
	Op string `json:"op,omitempty"`
}

func gen(t *rapid.T) *Case {
	o := vlib.HistGenOpts{Universe: vlib.UniPlain, MinSteps: 0, MaxSteps: 4, WithInit: true, AllowOrphan: true}
	c := &Case{Hist: vlib.GenHistCase(t, o), T: vlib.GenStep(t, o)}
	c.Target = rapid.SampledFrom([]string{"device", "cache", "cache", "cache", "schema"}).Draw(t, "target")
	c.Kind = rapid.SampledFrom([]string{"error", "error", "error", "restart"}).Draw(t, "kind")
	c.Point = rapid.IntRange(0, 63).Draw(t, "point")
	// (rapid favours the bounds of a range: two interior values keep this rare, each slow case costs 2.3 s)
	if rapid.IntRange(0, 9).Draw(t, "slow-a") == 4 && rapid.IntRange(0, 2).Draw(t, "slow-b") == 1 {
		// not a failure at all: one cache call answers late (longer than every timeout data-server puts on it)
		c.Target, c.Kind = "cache", "slow"
	}
	if os.Getenv("VERIF_TIER") == "thorough" && rapid.IntRange(0, 3).Draw(t, "enumerate") == 0 {
		c.Point = -1
	}
	if c.Kind == "error" && rapid.IntRange(0, 5).Draw(t, "fault-in-cancel") == 0 {
		c.Op = "cancel"
	}
	return c
}

var prop = vlib.Prop[*Case]{
	ID: "C07",
	Rule: "case = confirmed prefix history (0..4 transactions as in C01) + transaction T + one fault: a fault-free twin datastore B runs prefix and T with counting decorators and yields the exact list of collaborator calls T makes (target.Set; every cache Read / ReadCh / GetKeys / Modify; every schema GetSchema); datastore A runs the same prefix, then T with exactly one of those calls failing (error, empty read result, a cache call that answers 2.3 s late without failing, or a restart: the call panics, the datastore is abandoned, the cache is closed and reopened over the same directory and a new datastore is built); a sixth of the error faults meet the rollback transaction of a TransactionCancel(T) instead (the cancel is the repeated request, the twin cancels fault-free); the fault point is drawn in the quick tier and enumerated over the whole call list for a quarter of the cases in the thorough tier; " +
		"oracle = device fault: TransactionSet returns an error, INTENDED and CONFIG dumps equal the pre-T dumps and the transaction slot is free; every fault: repeating T once the fault is gone succeeds and leaves device and intended store of A equal to those of B; " +
		"non-trivial = T has a non-empty diff in the fault-free run and the fault actually fired; distinct = distinct (case, fault point)",
	Gen:  gen,
	Exec: Exec,
}

func harnessErr(err error) {
	fmt.Fprintf(os.Stderr, "HARNESS-ERROR %v\n", err)
	os.Exit(2)
}

type world struct {
	h      *vlib.HistEnv
	cdeco  *vlib.CacheDeco
	sdeco  *vlib.SchemaDeco
}

func build(ctx context.Context, c *Case, name string) (*world, bool) {
	env := vlib.MustEnv()
	w := &world{cdeco: vlib.NewCacheDeco(env.Cache), sdeco: vlib.NewSchemaDeco(env.SchemaClient)}
	h, err := vlib.NewHistEnv(ctx, env, c.Hist, vlib.HistEnvOpts{DS: vlib.DSOpts{Name: name, Cache: w.cdeco, Schema: w.sdeco}})
	if err != nil {
		harnessErr(err)
	}
	w.h = h
	for _, s := range c.Hist.Steps {
		if res := h.RunStep(s); !res.OK {
			return w, false
		}
	}
	return w, true
}

func state(ctx context.Context, w *world) (vlib.StoreDump, vlib.StoreDump, vlib.Conf) {
	env := vlib.MustEnv()
	i, err := vlib.DumpIntended(ctx, env.Cache, w.h.DSName)
	if err != nil {
		harnessErr(err)
	}
	c, err := vlib.DumpFlat(ctx, env.Cache, w.h.DSName, cachepb.Store_CONFIG)
	if err != nil {
		harnessErr(err)
	}
	return i, c, vlib.NormPresence(w.h.Dev.Snapshot())
}

// submit runs T (without confirm) and converts a restart sentinel into crashed=true.
func submit(w *world, t vlib.Step) (res *vlib.StepResult, crashed bool) {
	defer func() {
		if r := recover(); r != nil {
			if _, ok := r.(vlib.CrashSentinel); ok {
				crashed = true
				return
			}
			panic(r)
		}
	}()
	return w.h.SubmitStep(t), false
}

func Exec(c *Case) (nontrivial bool, labels []string, fail *vlib.Failure) {
	ctx := context.Background()
	env := vlib.MustEnv()
	st := vlib.GetStats("C07")
	if c.Op == "cancel" {
		return execCancel(ctx, c)
	}
	// --- fault-free twin B
	b, ok := build(ctx, c, env.FreshName("c7b"))
	defer b.h.DS.Stop()
	if !ok {
		st.Discard("prefix-step-refused")
		return false, []string{"discard"}, nil
	}
	b.cdeco.Reset()
	b.cdeco.Record = true
	b.sdeco.Reset()
	b.sdeco.Record = true
	devCallsBefore := b.h.Dev.Calls()
	resB := b.h.SubmitStep(c.T)
	b.cdeco.Record, b.sdeco.Record = false, false
	if !resB.OK {
		st.Discard("T-refused-fault-free")
		return false, []string{"discard"}, nil
	}
	_ = b.h.DS.TransactionConfirm(ctx, resB.TxID)
	// paths left behind by an orphan request are unconstrained (C01): what the device keeps for them depends on
	// which intents were still stored when the retry ran; they are left out of the device comparison
	b.h.Model.Apply(resB.Resolved)
	exempt := b.h.Model.Orphaned
	cacheCalls := b.cdeco.CallList()
	schemaCalls := b.sdeco.Count()
	devCalls := b.h.Dev.Calls() - devCallsBefore
	intB, _, devB := state(ctx, b)
	diffNonEmpty := false
	if rec := b.h.Dev.LastRecord(); devCalls > 0 && rec != nil && len(rec.Updates)+len(rec.Deletes) > 0 {
		diffNonEmpty = true
	}
	// fault points
	var n int
	switch c.Target {
	case "device":
		n = devCalls
	case "cache":
		n = len(cacheCalls)
	case "schema":
		n = schemaCalls
	}
	if n == 0 {
		st.Discard("no-call-to-" + c.Target)
		return false, []string{"discard"}, nil
	}
	points := []int{c.Point % n}
	if c.Kind == "slow" && c.Point >= 0 {
		// lateness matters where data-server bounds the call: the reads
		var reads []int
		for i, cc := range cacheCalls {
			if cc.Op == "Read" || cc.Op == "ReadCh" {
				reads = append(reads, i)
			}
		}
		if len(reads) > 0 {
			points[0] = reads[c.Point%len(reads)]
		}
	}
	if c.Point < 0 {
		points = points[:0]
		for k := 0; k < n; k++ {
			points = append(points, k)
		}
	}
	lab := map[string]bool{"target-" + c.Target: true, "kind-" + c.Kind: true}
	if c.Point < 0 {
		lab["enumerated-all-points"] = true
	}
	for _, k := range points {
		f, fired, phase := oneFault(ctx, c, k, cacheCalls, intB, devB, exempt)
		if phase != "" {
			lab["phase-"+phase] = true
		}
		if fired && diffNonEmpty {
			nontrivial = true
		}
		if fired {
			st.Label("fault-fired")
		} else {
			st.Label("fault-not-reached")
		}
		if f != nil {
			return nontrivial, keys(lab), f
		}
	}
	return nontrivial, keys(lab), nil
}

// execCancel: the rollback transaction of TransactionCancel meets the fault. The cancel is the request that is
// repeated; the fault-free twin cancels the same transaction without a fault.
func execCancel(ctx context.Context, c *Case) (nontrivial bool, labels []string, fail *vlib.Failure) {
	env := vlib.MustEnv()
	st := vlib.GetStats("C07")
	lab := map[string]bool{"target-" + c.Target: true, "kind-" + c.Kind: true, "fault-in-cancel": true}
	b, ok := build(ctx, c, env.FreshName("c7b"))
	defer b.h.DS.Stop()
	if !ok {
		st.Discard("prefix-step-refused")
		return false, []string{"discard"}, nil
	}
	resB := b.h.SubmitStep(c.T)
	if !resB.OK {
		st.Discard("T-refused-fault-free")
		return false, []string{"discard"}, nil
	}
	b.cdeco.Reset()
	b.cdeco.Record = true
	b.sdeco.Reset()
	b.sdeco.Record = true
	devCallsBefore := b.h.Dev.Calls()
	errB := b.h.DS.TransactionCancel(ctx, resB.TxID)
	b.cdeco.Record, b.sdeco.Record = false, false
	if errB != nil {
		st.Discard("cancel-refused-fault-free")
		return false, []string{"discard"}, nil
	}
	cacheCalls := b.cdeco.CallList()
	n := map[string]int{"device": b.h.Dev.Calls() - devCallsBefore, "cache": len(cacheCalls), "schema": b.sdeco.Count()}[c.Target]
	if n == 0 {
		st.Discard("no-call-to-" + c.Target + "-in-cancel")
		return false, []string{"discard"}, nil
	}
	intB, _, devB := state(ctx, b)
	points := []int{0}
	if c.Point >= 0 {
		points[0] = c.Point % n
	} else {
		points = points[:0]
		for k := 0; k < n; k++ {
			points = append(points, k)
		}
	}
	for _, k := range points {
		a, ok := build(ctx, c, env.FreshName("c7a"))
		if !ok {
			a.h.DS.Stop()
			continue
		}
		resA := a.h.SubmitStep(c.T)
		if !resA.OK {
			a.h.FreeSlot(resA.TxID)
			a.h.DS.Stop()
			continue
		}
		phase := "apply"
		where := fmt.Sprintf("fault %s/%s at call %d of TransactionCancel", c.Target, c.Kind, k)
		switch c.Target {
		case "device":
			a.h.Dev.FailAt = a.h.Dev.Calls() + k + 1
		case "cache":
			a.cdeco.Reset()
			a.cdeco.FaultAt, a.cdeco.FaultKind, a.cdeco.Record = k, "error", true
			if k < len(cacheCalls) {
				phase = phaseOf(cacheCalls[k], k, cacheCalls)
				where += " (" + cacheCalls[k].String() + ", " + phase + ")"
			}
		case "schema":
			a.sdeco.Reset()
			a.sdeco.FaultAt, a.sdeco.FaultKind, a.sdeco.Record = k, "error", true
			phase = "schema"
		}
		err1 := a.h.DS.TransactionCancel(ctx, resA.TxID)
		a.cdeco.Record, a.sdeco.Record = false, false
		fired := a.cdeco.Fired || a.sdeco.Fired || (c.Target == "device" && a.h.Dev.FailFired())
		a.h.Dev.FailAt = 0
		a.cdeco.FaultAt, a.sdeco.FaultAt = -1, -1
		lab["phase-"+phase] = true
		f := func() *vlib.Failure {
			if !fired {
				st.Label("fault-not-reached")
				return nil
			}
			st.Label("fault-fired")
			nontrivial = true
			if c.Target == "device" && err1 == nil {
				return vlib.Failf("C07:cancel:device-error-swallowed", "%s: the device refused the rollback but TransactionCancel returned no error", where)
			}
			if err1 != nil {
				// the same request once the fault is gone
				if err2 := a.h.DS.TransactionCancel(ctx, resA.TxID); err2 != nil {
					return vlib.Failf("C07:cancel-retry-refused:"+c.Target, "%s: TransactionCancel failed (%v); repeating it after the fault is gone fails: %v", where, err1, err2)
				}
			}
			if id, open, _ := a.h.DS.VerifPeekTransaction(); open {
				return vlib.Failf("C07:cancel:slot-occupied", "%s: after the (repeated) cancel the slot still holds %q", where, id)
			}
			intA, _, devA := state(ctx, a)
			if d := devA.Diff(devB); len(d) > 0 {
				return vlib.Failf("C07:device-diverges:"+c.Target+":"+c.Kind+":"+phase, "%s: after the repeated cancel the device differs from the fault-free cancel (faulted vs fault-free):\n  %s", where, strings.Join(d, "\n  "))
			}
			if d := vlib.DiffKeys(intB.Keys(), intA.Keys()); len(d) > 0 {
				return vlib.Failf("C07:intended-diverges:"+c.Target+":"+c.Kind+":"+phase, "%s: after the repeated cancel the intended store differs from the fault-free cancel (- fault-free only, + faulted only):\n  %s", where, strings.Join(d, "\n  "))
			}
			return nil
		}()
		if id, open, _ := a.h.DS.VerifPeekTransaction(); open {
			a.h.FreeSlot(id)
		}
		a.h.DS.Stop()
		if f != nil {
			return nontrivial, keys(lab), f
		}
	}
	return nontrivial, keys(lab), nil
}

func phaseOf(c vlib.CacheCall, idx int, calls []vlib.CacheCall) string {
	// the first Modify marks the persist phase
	firstModify := len(calls)
	for i, x := range calls {
		if x.Op == "Modify" {
			firstModify = i
			break
		}
	}
	switch {
	case idx >= firstModify && c.Store == "INTENDED":
		return "persist-intent"
	case idx >= firstModify && c.Store == "CONFIG":
		return "persist-running"
	case c.Op == "GetKeys":
		return "refresh-index"
	case c.Store == "CONFIG":
		return "load-running"
	default:
		return "load-intended"
	}
}

func without(c vlib.Conf, exempt map[string]bool) vlib.Conf {
	if len(exempt) == 0 {
		return c
	}
	r := vlib.Conf{}
	for k, v := range c {
		if !exempt[k] {
			r[k] = v
		}
	}
	return r
}

func oneFault(ctx context.Context, c *Case, k int, cacheCalls []vlib.CacheCall, intB vlib.StoreDump, devB vlib.Conf, exempt map[string]bool) (*vlib.Failure, bool, string) {
	env := vlib.MustEnv()
	name := env.FreshName("c7a")
	a, ok := build(ctx, c, name)
	if !ok {
		a.h.DS.Stop()
		return nil, false, ""
	}
	defer func() { a.h.DS.Stop() }()
	int0, cfg0, _ := state(ctx, a)
	phase := ""
	where := fmt.Sprintf("fault %s/%s at call %d", c.Target, c.Kind, k)
	kind := "error"
	if c.Kind == "restart" {
		kind = "panic"
	}
	if c.Kind == "slow" {
		kind = "slow"
		a.cdeco.SlowDelay = 2300 * time.Millisecond
	}
	switch c.Target {
	case "device":
		a.h.Dev.FailAt = a.h.Dev.Calls() + k + 1
		phase = "apply"
		if c.Kind == "restart" {
			a.h.Dev.PanicOnFail = true
		}
	case "cache":
		a.cdeco.Reset()
		a.cdeco.FaultAt, a.cdeco.FaultKind, a.cdeco.Record = k, kind, true
		if k < len(cacheCalls) {
			phase = phaseOf(cacheCalls[k], k, cacheCalls)
			where += " (" + cacheCalls[k].String() + ", " + phase + ")"
		}
	case "schema":
		a.sdeco.Reset()
		a.sdeco.FaultAt, a.sdeco.FaultKind, a.sdeco.Record = k, kind, true
		phase = "schema"
	}
	res, crashed := submit(a, c.T)
	a.cdeco.Record, a.sdeco.Record = false, false
	fired := crashed || a.cdeco.Fired || a.sdeco.Fired || (c.Target == "device" && a.h.Dev.FailFired())
	a.h.Dev.FailAt = 0
	a.cdeco.FaultAt, a.sdeco.FaultAt = -1, -1
	if !fired {
		// the call sequence of this run did not reach the point (order of map iteration differs): nothing to assert
		if res != nil && res.OK {
			_ = a.h.DS.TransactionConfirm(ctx, res.TxID)
		}
		return nil, false, phase
	}
	if crashed {
		// restart: abandon the datastore, reopen the cache over the same directory, build a new datastore
		a.h.DS.Stop()
		if err := env.ReopenCache(); err != nil {
			harnessErr(err)
		}
		a.cdeco = vlib.NewCacheDeco(env.Cache)
		a.sdeco = vlib.NewSchemaDeco(env.SchemaClient)
		a.h.DS = env.NewDatastore(ctx, a.h.Dev, vlib.DSOpts{Name: name, Cache: a.cdeco, Schema: a.sdeco})
	} else {
		// error fault
		if c.Target == "device" {
			if res.Err == nil {
				return vlib.Failf("C07:device-error-swallowed", "%s: the device refused the change but TransactionSet returned no error (intent errors: %v)", where, res.IntentErrors), true, phase
			}
			int1, cfg1, _ := state(ctx, a)
			if d := vlib.DiffKeys(int0.Keys(), int1.Keys()); len(d) > 0 {
				return vlib.Failf("C07:intent-persisted-after-device-error", "%s: the device refused the change, yet the intended store changed:\n%s", where, strings.Join(d, "\n")), true, phase
			}
			if d := vlib.DiffKeys(cfg0.Keys(), cfg1.Keys()); len(d) > 0 {
				return vlib.Failf("C07:running-changed-after-device-error", "%s: the device refused the change, yet the running mirror changed:\n%s", where, strings.Join(d, "\n")), true, phase
			}
			if _, open, _ := a.h.DS.VerifPeekTransaction(); open {
				return vlib.Failf("C07:locked-after-device-error", "%s: the device refused the change and the transaction slot stays occupied", where), true, phase
			}
		}
		if res.OK {
			// the fault was tolerated (e.g. an empty read result that did not matter): T is applied; confirm and compare
			_ = a.h.DS.TransactionConfirm(ctx, res.TxID)
		} else {
			a.h.FreeSlot(res.TxID)
		}
	}
	// retry T with the fault gone; a retry that never returns (a lock the failed attempt left behind) is no convergence
	var res2 *vlib.StepResult
	retryCh := make(chan *vlib.StepResult, 1)
	go func() { retryCh <- a.h.SubmitStep(c.T) }()
	select {
	case res2 = <-retryCh:
	case <-time.After(40 * time.Second):
		return vlib.Failf("C07:retry-does-not-return:"+c.Target+":"+c.Kind, "%s: repeating T after the fault is gone has not returned after 40 s", where), true, phase
	}
	if !res2.OK {
		sig := "C07:retry-refused:" + c.Target + ":" + c.Kind
		if res2.Err != nil && errors.Is(res2.Err, vlib.ErrSchemaInjected) || strings.Contains(res2.ErrText(), "injected schema") {
			sig = "C07:retry-refused:schema-error-memoised"
		}
		return vlib.Failf(sig, "%s: repeating T after the fault is gone fails: %s", where, res2.ErrText()), true, phase
	}
	_ = a.h.DS.TransactionConfirm(ctx, res2.TxID)
	intA, _, devA := state(ctx, a)
	if d := without(devA, exempt).Diff(without(devB, exempt)); len(d) > 0 {
		return vlib.Failf("C07:device-diverges:"+c.Target+":"+c.Kind+":"+phase, "%s: after the retry the device differs from the fault-free run (faulted vs fault-free):\n  %s", where, strings.Join(d, "\n  ")), true, phase
	}
	if d := vlib.DiffKeys(intB.Keys(), intA.Keys()); len(d) > 0 {
		return vlib.Failf("C07:intended-diverges:"+c.Target+":"+c.Kind+":"+phase, "%s: after the retry the intended store differs from the fault-free run (- fault-free only, + faulted only):\n  %s", where, strings.Join(d, "\n  ")), true, phase
	}
	return nil, true, phase
}

func keys(m map[string]bool) []string {
	var r []string
	for k := range m {
		r = append(r, k)
	}
	return r
}

var _ = strconv.Itoa
var _ = sdcpb.Encoding_JSON

func TestProp(t *testing.T)   { prop.Check(t) }
func TestReplay(t *testing.T) { prop.Replay(t) }
func TestKnown(t *testing.T)  { prop.Known(t) }
