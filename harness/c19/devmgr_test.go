package c19

import (
	"context"
	"fmt"
	"os"
	"sync/atomic"
	"testing"
	"time"

	"github.com/sdcio/data-server/pkg/datastore"
	"github.com/sdcio/data-server/pkg/server"
	sdcpb "github.com/sdcio/sdc-protos/sdcpb"
	"google.golang.org/grpc/peer"
	"pgregory.net/rapid"
	"verif/harness/vlib"
)

// DevMgrCase: several WatchDeviations clients on one datastore while the real DeviationMgr (30 s ticker, a
// constant) runs a cycle; one consumer stalls in Send during the cycle; then another client ends or a new one
// registers. The handler of a client that ends must return within the bound although another consumer stalls.
type DevMgrCase struct {
	Watchers int    `json:"watchers"` // 2..3
	Stalled  int    `json:"stalled"`  // index of the stalled consumer
	Action   string `json:"action"`   // cancel | register
}

var devMgrProp = vlib.Prop[*DevMgrCase]{
	ID:   "C19",
	Rule: prop.Rule,
	Gen: func(t *rapid.T) *DevMgrCase {
		c := &DevMgrCase{Watchers: rapid.IntRange(2, 3).Draw(t, "watchers"), Action: rapid.SampledFrom([]string{"cancel", "cancel", "register"}).Draw(t, "action")}
		c.Stalled = rapid.IntRange(0, c.Watchers-1).Draw(t, "stalled")
		return c
	},
	Exec: execDevMgr,
}

func execDevMgr(c *DevMgrCase) (bool, []string, *vlib.Failure) {
	ctx, cancelAll := context.WithCancel(context.Background())
	defer cancelAll()
	env := vlib.MustEnv()
	hc := &vlib.HistCase{Universe: "plain", Palette: []string{"a", "b", "c"}, Initial: []vlib.LeafSel{{T: 0, V: 0}, {T: 3, V: 1}}}
	h, err := vlib.NewHistEnv(ctx, env, hc, vlib.HistEnvOpts{})
	if err != nil {
		fmt.Fprintf(os.Stderr, "HARNESS-ERROR %v\n", err)
		os.Exit(2)
	}
	defer h.DS.Stop()
	srv := server.VerifNewServer(ctx, map[string]*datastore.Datastore{h.DSName: h.DS})
	lab := []string{"deviation-manager", "devmgr-" + c.Action}
	before := dsGoroutines()
	go h.DS.DeviationMgr(ctx)
	type watcher struct {
		st   *vlib.FakeStream[sdcpb.WatchDeviationResponse]
		done chan error
	}
	var inSend atomic.Int32
	start := func(i int, stall bool) *watcher {
		pctx := peer.NewContext(ctx, &peer.Peer{Addr: addr(fmt.Sprintf("10.0.0.%d:5000", i+1))})
		w := &watcher{st: vlib.NewFakeStream[sdcpb.WatchDeviationResponse](pctx), done: make(chan error, 1)}
		if stall {
			w.st.StallAt = 0
			w.st.OnSend = func(int) { inSend.Add(1) }
		}
		go func() { w.done <- srv.WatchDeviations(&sdcpb.WatchDeviationRequest{Name: []string{h.DSName}}, w.st) }()
		return w
	}
	var ws []*watcher
	for i := 0; i < c.Watchers; i++ {
		ws = append(ws, start(i, i == c.Stalled))
	}
	// the first tick comes after 30 s: wait until the stalled consumer sits in Send
	dl := time.Now().Add(45 * time.Second)
	for inSend.Load() == 0 {
		if time.Now().After(dl) {
			return false, lab, vlib.Failf("C19:watchdev:no-cycle", "no deviation cycle reached the stalled consumer within 45 s")
		}
		time.Sleep(20 * time.Millisecond)
	}
	other := (c.Stalled + 1) % c.Watchers
	switch c.Action {
	case "cancel":
		ws[other].st.Cancel()
		select {
		case e := <-ws[other].done:
			ws[other].done <- e // the final join reads it again
		case <-time.After(bound):
			return true, lab, vlib.Failf("C19:watchdev:does-not-return:other-consumer-stalled", "WatchDeviations of a client that ended did not return within %v while another consumer stalls in Send during a deviation cycle; goroutines of the call:\n%s", bound, stacks(before))
		}
	case "register":
		nw := start(c.Watchers, false)
		time.Sleep(50 * time.Millisecond)
		nw.st.Cancel()
		select {
		case <-nw.done:
		case <-time.After(bound):
			return true, lab, vlib.Failf("C19:watchdev:does-not-return:other-consumer-stalled", "WatchDeviations of a client that registered and ended while another consumer stalls in Send did not return within %v; goroutines of the call:\n%s", bound, stacks(before))
		}
	}
	// everybody ends: all handlers and the manager have to go away
	cancelAll()
	for i, w := range ws {
		select {
		case <-w.done:
		case <-time.After(bound):
			return true, lab, vlib.Failf("C19:watchdev:does-not-return", "WatchDeviations handler %d did not return within %v after its client ended; goroutines:\n%s", i, bound, stacks(before))
		}
	}
	dl = time.Now().Add(bound)
	for {
		left := 0
		for id := range dsGoroutines() {
			if _, ok := before[id]; !ok {
				left++
			}
		}
		if left == 0 {
			break
		}
		if time.Now().After(dl) {
			return true, lab, vlib.Failf("C19:watchdev:goroutines-left", "%d goroutines with data-server frames are left %v after every client ended:\n%s", left, bound, stacks(before))
		}
		time.Sleep(20 * time.Millisecond)
	}
	return true, lab, nil
}

func TestDevMgr(t *testing.T) { devMgrProp.Check(t) }
