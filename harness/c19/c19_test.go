// C19 — streaming RPCs end when their client does.
package c19

import (
	"bytes"
	"context"
	"fmt"
	"net"
	"os"
	"regexp"
	"runtime"
	"sort"
	"strings"
	"testing"
	"time"

	"github.com/sdcio/cache/proto/cachepb"
	"github.com/sdcio/data-server/pkg/datastore"
	"github.com/sdcio/data-server/pkg/server"
	sdcpb "github.com/sdcio/sdc-protos/sdcpb"
	"google.golang.org/grpc/peer"
	"pgregory.net/rapid"
	"verif/harness/vlib"
)

func TestMain(m *testing.M) { vlib.Main(m) }

type Sub struct {
	Paths      []int  `json:"paths"`
	IntervalMs int    `json:"interval_ms"`
	DataType   string `json:"data_type"`
}

type Case struct {
	Hist     *vlib.HistCase `json:"hist"` // only palette + initial running configuration are used
	RPC      string         `json:"rpc"`  // getdata | subscribe | watchdev
	Paths    []int          `json:"paths,omitempty"`
	Encoding string         `json:"encoding,omitempty"`
	DataType string         `json:"data_type,omitempty"`
	// NoCandidate: GetData addresses a candidate that does not exist (the cache read cannot even be started)
	NoCandidate bool `json:"no_candidate,omitempty"`
	Subs     []Sub          `json:"subs,omitempty"`
	// how the client ends
	End     string `json:"end"`      // exhaust | cancel-at-send | fail-from-send | fail-from-send-and-cancel | stall-then-cancel | cancel-after
	K       int    `json:"k"`        // send index of the event
	AfterMs int    `json:"after_ms"` // delay of the cancellation (cancel-after, stall-then-cancel)
	DelayMs int    `json:"delay_ms"` // slow consumer: every Send takes this long
}

var pathPool = []string{"/plain", "/plain/l1", "/plain/descr", "/plain/l2a", "/plain/ifc", "/chc", "/plain/sub", "/plain/tags"}

func genPaths(t *rapid.T, label string) []int {
	// "any number of paths": now and then none at all
	if rapid.IntRange(0, 7).Draw(t, label+"-none") == 3 {
		return []int{}
	}
	return rapid.SliceOfN(rapid.IntRange(0, len(pathPool)-1), 1, 4).Draw(t, label)
}

func gen(t *rapid.T) *Case {
	o := vlib.HistGenOpts{Universe: vlib.UniPlain, MinSteps: 0, MaxSteps: 0, WithInit: false}
	c := &Case{Hist: vlib.GenHistCase(t, o)}
	c.Hist.Initial = vlib.GenLeafSels(t, vlib.UniPlain, 0, 12, "running")
	c.RPC = rapid.SampledFrom([]string{"getdata", "getdata", "subscribe", "subscribe", "subscribe", "watchdev"}).Draw(t, "rpc")
	c.K = rapid.IntRange(0, 14).Draw(t, "k")
	c.AfterMs = rapid.IntRange(0, 25).Draw(t, "after-ms")
	if rapid.IntRange(0, 3).Draw(t, "slow") == 0 {
		c.DelayMs = rapid.IntRange(1, 4).Draw(t, "delay-ms")
	}
	ends := []string{"cancel-at-send", "fail-from-send", "fail-from-send-and-cancel", "stall-then-cancel", "cancel-after", "cancelled-before-call"}
	switch c.RPC {
	case "getdata":
		c.Paths = genPaths(t, "paths")
		c.Encoding = rapid.SampledFrom([]string{"STRING", "PROTO", "JSON", "JSON_IETF"}).Draw(t, "encoding")
		c.DataType = rapid.SampledFrom([]string{"ALL", "CONFIG", "STATE"}).Draw(t, "datatype")
		ends = append(ends, "exhaust", "exhaust", "cancel-after-last-read", "cancel-after-last-read")
		c.NoCandidate = rapid.IntRange(0, 7).Draw(t, "no-candidate") == 0
	case "subscribe":
		n := rapid.IntRange(1, 4).Draw(t, "nsubs")
		for i := 0; i < n; i++ {
			c.Subs = append(c.Subs, Sub{Paths: genPaths(t, "subpaths"), IntervalMs: rapid.IntRange(1, 6).Draw(t, "interval-ms"),
				DataType: rapid.SampledFrom([]string{"ALL", "CONFIG", "STATE"}).Draw(t, "datatype")})
		}
	case "watchdev":
		ends = []string{"cancel-after", "cancelled-before-call"}
	}
	c.End = rapid.SampledFrom(ends).Draw(t, "end")
	if c.End == "cancel-after-last-read" && rapid.IntRange(0, 3).Draw(t, "document-encoding") != 0 {
		// the single-document encodings are the ones with a hand-over after the last read
		c.Encoding = rapid.SampledFrom([]string{"JSON", "JSON_IETF"}).Draw(t, "doc-enc")
	}
	return c
}

// bound on the time between the end event and the return of the handler / the exit of its goroutines
const bound = 3 * time.Second

var prop = vlib.Prop[*Case]{
	ID: "C19",
	Rule: "case = running configuration (0..12 generated leaves written to the CONFIG store, a copy in STATE) + one streaming call on a harness-owned stream: Server.GetData (hook H7; 0..4 paths, 4 encodings, 3 data types), Datastore.Subscribe (1..4 subscriptions of 0..4 paths, sample intervals 1..6 ms) or Server.WatchDeviations + the way the client ends: data exhausted, context cancelled when send k happened, every send from index k on fails (with or without the context being cancelled), send k stalls and the context is cancelled later, cancellation after 0..25 ms (hits arbitrary ticks), a context that is cancelled before the call starts, optionally a slow consumer (1..4 ms per send); " +
		"oracle = the handler returns within 3 s of the end event and within 3 s of its return no goroutine with a data-server frame that did not exist before the call is left; a panic anywhere kills the process and is reported through the case journal; " +
		"a second, small family of cases runs the real DeviationMgr (its 30 s ticker is a constant, one case costs 30 s): 2..3 WatchDeviations clients, one consumer stalls in Send during the cycle, another client ends or a new one registers and ends - its handler must return within the bound; " +
		"non-trivial = the end event happened while the call was active (at least one message sent or the call was blocked in a tick wait); distinct = distinct cases",
	Gen:  gen,
	Exec: Exec,
}

type addr string

func (a addr) Network() string { return "tcp" }
func (a addr) String() string  { return string(a) }

var _ net.Addr = addr("")

var goroutineHdr = regexp.MustCompile(`^goroutine (\d+) \[`)

// dsGoroutines returns id -> stack of all goroutines with a data-server frame.
func dsGoroutines() map[string]string {
	buf := make([]byte, 1<<20)
	for {
		n := runtime.Stack(buf, true)
		if n < len(buf) {
			buf = buf[:n]
			break
		}
		buf = make([]byte, 2*len(buf))
	}
	res := map[string]string{}
	for _, g := range bytes.Split(buf, []byte("\n\n")) {
		s := string(g)
		if !strings.Contains(s, "github.com/sdcio/data-server/pkg/") {
			continue
		}
		if strings.Contains(s, "verif/harness/c19.Exec") && !strings.Contains(s, "c19.Exec.func") {
			continue // the harness goroutine itself
		}
		m := goroutineHdr.FindStringSubmatch(s)
		if m != nil {
			res[m[1]] = s
		}
	}
	return res
}

func dataType(s string) sdcpb.DataType {
	return sdcpb.DataType(sdcpb.DataType_value[s])
}

func paths(ix []int) []*sdcpb.Path {
	var r []*sdcpb.Path
	for _, i := range ix {
		r = append(r, vlib.MustCanon(pathPool[i]).Sdcpb())
	}
	return r
}

func Exec(c *Case) (nontrivial bool, labels []string, fail *vlib.Failure) {
	ctx := context.Background()
	env := vlib.MustEnv()
	deco := vlib.NewCacheDeco(env.Cache)
	h, err := vlib.NewHistEnv(ctx, env, c.Hist, vlib.HistEnvOpts{DS: vlib.DSOpts{Cache: deco}})
	if err != nil {
		fmt.Fprintf(os.Stderr, "HARNESS-ERROR %v\n", err)
		os.Exit(2)
	}
	defer h.DS.Stop()
	if err := vlib.WriteStore(ctx, env.Cache, h.DSName, cachepb.Store_STATE, h.Dev.Snapshot()); err != nil {
		fmt.Fprintf(os.Stderr, "HARNESS-ERROR %v\n", err)
		os.Exit(2)
	}
	srv := server.VerifNewServer(ctx, map[string]*datastore.Datastore{h.DSName: h.DS})
	lab := map[string]bool{"rpc-" + c.RPC: true, "end-" + c.End: true}
	if c.DelayMs > 0 {
		lab["slow-consumer"] = true
	}
	before := dsGoroutines()

	pctx := peer.NewContext(ctx, &peer.Peer{Addr: addr("10.0.0.1:5000")})
	event := make(chan struct{}, 1) // the end event happened
	var sendCount func() int
	var cancel context.CancelFunc
	done := make(chan error, 1)
	mark := func() {
		select {
		case event <- struct{}{}:
		default:
		}
	}
	configure := func(failAt, failFrom, cancelAt, stallAt *int, failCancel *bool, delay *time.Duration, onSend *func(int)) {
		*delay = time.Duration(c.DelayMs) * time.Millisecond
		switch c.End {
		case "cancel-at-send":
			*cancelAt = c.K + 1
		case "fail-from-send":
			*failFrom = c.K
		case "fail-from-send-and-cancel":
			*failFrom = c.K
			*failCancel = true
		case "stall-then-cancel":
			*stallAt = c.K
		}
		k := c.K
		*onSend = func(i int) {
			if i >= k && c.End != "cancel-after" && c.End != "exhaust" && c.End != "stall-then-cancel" {
				mark()
			}
			if i == k && c.End == "stall-then-cancel" {
				cf := cancel
				go func() {
					time.Sleep(time.Duration(c.AfterMs) * time.Millisecond)
					mark()
					cf()
				}()
			}
		}
	}
	if c.End == "cancel-after-last-read" {
		// the client goes away after the K-th cache read of the call delivered its last element: for the JSON encodings
		// that is between reading and handing the document over
		k := 0
		if c.DataType == "ALL" && !c.NoCandidate {
			k = 1 // CONFIG, then STATE
		}
		deco.OnReadChEnd = func(ord int) {
			if ord == k {
				mark()
				if cancel != nil {
					cancel()
				}
			}
		}
	}
	if c.End == "cancelled-before-call" {
		// the client is gone before the handler starts
		cctx, ccancel := context.WithCancel(pctx)
		ccancel()
		pctx = cctx
		mark()
	}
	switch c.RPC {
	case "getdata":
		st := vlib.NewFakeStream[sdcpb.GetDataResponse](pctx)
		configure(&st.FailAt, &st.FailFrom, &st.CancelAt, &st.StallAt, &st.FailCancel, &st.Delay, &st.OnSend)
		cancel, sendCount = st.Cancel, func() int { return len(st.Messages()) }
		req := &sdcpb.GetDataRequest{Name: h.DSName, Path: paths(c.Paths), DataType: dataType(c.DataType),
			Encoding: sdcpb.Encoding(sdcpb.Encoding_value[c.Encoding]), Datastore: &sdcpb.DataStore{Type: sdcpb.Type_MAIN}}
		if c.NoCandidate {
			req.Datastore = &sdcpb.DataStore{Type: sdcpb.Type_CANDIDATE, Name: "nosuch"}
			if c.DataType == "STATE" {
				req.DataType = sdcpb.DataType_CONFIG
			}
			lab["getdata-on-missing-candidate"] = true
		}
		go func() { done <- srv.GetData(req, st) }()
	case "subscribe":
		st := vlib.NewFakeStream[sdcpb.SubscribeResponse](pctx)
		configure(&st.FailAt, &st.FailFrom, &st.CancelAt, &st.StallAt, &st.FailCancel, &st.Delay, &st.OnSend)
		cancel, sendCount = st.Cancel, func() int { return len(st.Messages()) }
		req := &sdcpb.SubscribeRequest{Name: h.DSName}
		for _, s := range c.Subs {
			req.Subscription = append(req.Subscription, &sdcpb.Subscription{Path: paths(s.Paths), DataType: dataType(s.DataType),
				SampleInterval: uint64(time.Duration(s.IntervalMs) * time.Millisecond)})
		}
		// Datastore.Subscribe directly: Server.Subscribe only adds the lookup and raises intervals to >= 1 s
		go func() { done <- h.DS.Subscribe(req, st) }()
	case "watchdev":
		st := vlib.NewFakeStream[sdcpb.WatchDeviationResponse](pctx)
		cancel, sendCount = st.Cancel, func() int { return len(st.Messages()) }
		go func() { done <- srv.WatchDeviations(&sdcpb.WatchDeviationRequest{Name: []string{h.DSName}}, st) }()
	}
	defer cancel()
	if c.End == "cancel-after" {
		cf := cancel
		go func() {
			time.Sleep(time.Duration(c.AfterMs) * time.Millisecond)
			mark()
			cf()
		}()
	}
	// wait for: return of the handler, or the end event followed by the bound
	var ret error
	returned := false
	eventSeen := false
	select {
	case ret = <-done:
		returned = true
	case <-event:
		eventSeen = true
	case <-time.After(func() time.Duration {
		if c.RPC == "getdata" && c.End == "exhaust" {
			// finite data and a client that keeps reading: the handler has to end by itself
			return bound
		}
		return 250 * time.Millisecond
	}()):
		if c.RPC == "getdata" && c.End == "exhaust" {
			return true, keys(lab), vlib.Failf("C19:getdata:does-not-return:exhaust", "GetData did not return within %v although the client read everything that was sent (%d messages); goroutines of the call:\n%s", bound, sendCount(), stacks(before))
		}
		// neither the event nor a return: the end event can not happen any more (e.g. send index never reached
		// on a subscription without data): cancel as a client would and apply the bound from here
		lab["event-never-reached"] = true
		cancel()
	}
	if !returned {
		select {
		case ret = <-done:
			returned = true
		case <-time.After(bound):
		}
	}
	sent := sendCount()
	if !returned {
		sig := "C19:" + c.RPC + ":does-not-return:" + c.End
		if c.RPC == "subscribe" {
			if len(c.Subs) > 1 {
				sig += ":several-subscriptions"
			} else {
				sig += ":one-subscription"
			}
		}
		return true, keys(lab), vlib.Failf(sig, "%s did not return within %v of the end event (%s, k=%d, %d messages sent); goroutines of the call:\n%s", c.RPC, bound, c.End, c.K, sent, stacks(before))
	}
	_ = ret
	if eventSeen || sent > 0 {
		nontrivial = true
	}
	if c.End == "exhaust" {
		lab["returned-after-exhaustion"] = true
	}
	if os.Getenv("VERIF_DEBUG") != "" {
		fmt.Printf("DEBUG returned=%v err=%v sent=%d event=%v conf=%v\n%s\n", returned, ret, sent, eventSeen, h.Dev.Snapshot(), stacks(before))
	}
	// goroutines released?
	deadline := time.Now().Add(bound)
	for {
		leaked := newOnes(before)
		if len(leaked) == 0 {
			break
		}
		if time.Now().After(deadline) {
			site := leakSite(leaked)
			return nontrivial, keys(lab), vlib.Failf("C19:"+c.RPC+":goroutine-leak:"+site, "%d goroutine(s) of the call are still alive %v after %s returned (%s, k=%d, %d messages sent):\n%s", len(leaked), bound, c.RPC, c.End, c.K, sent, strings.Join(leaked, "\n\n"))
		}
		time.Sleep(5 * time.Millisecond)
	}
	return nontrivial, keys(lab), nil
}

func newOnes(before map[string]string) []string {
	var r []string
	now := dsGoroutines()
	ids := make([]string, 0, len(now))
	for id := range now {
		ids = append(ids, id)
	}
	sort.Strings(ids)
	for _, id := range ids {
		if _, old := before[id]; !old {
			r = append(r, now[id])
		}
	}
	return r
}

func stacks(before map[string]string) string {
	s := strings.Join(newOnes(before), "\n\n")
	if len(s) > 6000 {
		s = s[:6000]
	}
	return s
}

var frameRe = regexp.MustCompile(`github.com/sdcio/data-server/pkg/([A-Za-z0-9_/.()*]+)`)

func leakSite(leaked []string) string {
	m := frameRe.FindStringSubmatch(leaked[0])
	if m == nil {
		return "unknown"
	}
	return strings.NewReplacer("(", "", ")", "", "*", "").Replace(m[1])
}

func keys(m map[string]bool) []string {
	var r []string
	for k := range m {
		r = append(r, k)
	}
	return r
}

func TestProp(t *testing.T)   { prop.Check(t) }
func TestReplay(t *testing.T) { prop.Replay(t) }
func TestKnown(t *testing.T)  { prop.Known(t) }
