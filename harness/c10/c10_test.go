// C10 — all southbound encodings describe the same change.
package c10

import (
	"context"
	"fmt"
	"os"
	"sort"
	"strings"
	"testing"

	"github.com/sdcio/data-server/pkg/datastore/target"
	"pgregory.net/rapid"
	"verif/harness/vlib"
)

func TestMain(m *testing.M) { vlib.Main(m) }

// universe: plain (incl. non-alphabetical key lists), choices, typed leaves, two namespaces
var tmplPaths = []string{
	"plain/descr", "plain/descr-long", "plain/num", "plain/flag", "plain/defleaf", "plain/tags", "plain/pres", "plain/pres/inner", "plain/sub/x", "plain/sub/y",
	"plain/extleaf", "plain/extc/e1", "plain/extc/e2",
	"plain/l1/descr", "plain/l1/mtu", "plain/l1/defmtu", "plain/l1/tags", "plain/l1/cfg/mode", "plain/l1/cfg/pres", "plain/l1/extattr", "plain/l1/sub/v",
	"plain/l2a/v", "plain/l2a/w", "plain/l2z/v", "plain/l3/v", "plain/l3a/v",
	"chc/ca", "chc/cb", "chc/cbc/x", "chc/cl", "chc/other",
	"types/i8", "types/u64", "types/d3", "types/bool", "types/enu", "types/idr", "types/uni", "types/emp", "types/ll-u8", "types/ll-idr", "types/bin",
	"plain/l1/descr", "plain/l1/mtu", "plain/l2z/v",
	"plain/extll", "chc/nest/oi/na", "chc/nest/oi/nb", "chc/nest/oi/nb2", "chc/nest/oc",
}
var uni *vlib.Universe

func init() {
	var ts []vlib.Tmpl
	for _, p := range tmplPaths {
		ts = append(ts, vlib.T(p))
	}
	uni = &vlib.Universe{Name: "enc", Tmpls: ts}
	vlib.Universes["enc"] = uni
}

var prop = vlib.Prop[*vlib.HistCase]{
	ID: "C10",
	Rule: "case = history of 1..8 multi-intent transactions (4 owners; create, replace, shrink, re-prioritise, delete) over plain (1..3-key lists in both key orders, presence containers, leaf-lists, defaults, two namespaces), a top-level choice and typed leaves; at every device Set the same tree instance is rendered as proto updates / deletes, JSON, JSON_IETF and XML for onlyNewOrUpdated in {true,false} x the 8 namespace / operation option combinations; " +
		"oracle = (1) semantic agreement: every rendering of the change is applied to a copy of the same device configuration under its own protocol semantics (gNMI delete-then-update; RFC 6241 merge / replace / delete / remove) and all results must be equal; the full renderings must decode to the same leaf set; (2) XML claims: with honorNamespace every element resolves to its schema node's namespace, every list entry starts with all its keys in key-statement order with the entry's values, no element without a name, deletions carry delete or remove as configured, with the nc: prefix and xmlns:nc iff operationWithNamespace; " +
		"non-trivial = a change with >= 1 delete and >= 1 update; distinct = distinct case JSON",
	Gen: gen,
	Exec: Exec,
}

func tmplIndex(path string) int {
	for i, p := range tmplPaths {
		if p == path {
			return i
		}
	}
	panic("no template " + path)
}

// choice groups of the universe: the members of one case, a member of another case of the same choice
var choiceSwitches = [][2][]string{
	{{"chc/cb", "chc/cbc/x"}, {"chc/ca"}},
	{{"chc/nest/oi/nb", "chc/nest/oi/nb2"}, {"chc/nest/oi/na"}},
	{{"chc/nest/oi/na", "chc/nest/oi/nb"}, {"chc/nest/oc"}},
	{{"chc/ca"}, {"chc/cl"}},
}

func gen(t *rapid.T) *vlib.HistCase {
	c := vlib.GenHistCase(t, vlib.HistGenOpts{Universe: uni, MinSteps: 1, MaxSteps: 8, WithInit: true, AllowOrphan: false, Forms: []string{"typed", "string"}})
	// now and then the device loses configuration behind the server's back before a step (and the sync notices)
	for i := 1; i < len(c.Steps); i++ {
		if rapid.IntRange(0, 3).Draw(t, "drift") == 0 {
			c.Steps[i].Drift = rapid.SliceOfN(rapid.IntRange(-1, 20), 1, 3).Draw(t, "drift-paths")
		}
	}
	if rapid.IntRange(0, 7).Draw(t, "case-switch-scenario") == 0 {
		// one owner holds the members of a case, the device loses them (or not), another owner makes another case win
		sw := rapid.SampledFrom(choiceSwitches).Draw(t, "switch")
		first, second := sw[0], sw[1]
		if rapid.Bool().Draw(t, "switch-reverse") {
			first, second = second, first
		}
		owners := rapid.Permutation([]int{0, 1, 2, 3}).Draw(t, "switch-owners")
		prios := rapid.Permutation([]int{0, 1, 2, 3, 4}).Draw(t, "switch-prios")
		mk := func(o, prio int, paths []string) vlib.IntentOp {
			op := vlib.IntentOp{Owner: o, Kind: "set", PrioIx: prio, Form: "typed"}
			for _, p := range paths {
				op.Leaves = append(op.Leaves, vlib.LeafSel{T: tmplIndex(p), V: rapid.IntRange(0, 2).Draw(t, "switch-v")})
			}
			return op
		}
		s1 := vlib.Step{Intents: []vlib.IntentOp{mk(owners[0], prios[0], first)}}
		s2 := vlib.Step{Intents: []vlib.IntentOp{mk(owners[1], prios[1], second)}}
		if rapid.Bool().Draw(t, "switch-drift") {
			s2.Drift = []int{-1}
		}
		tail := c.Steps
		if len(tail) > 3 {
			tail = tail[:3]
		}
		c.Initial = nil
		c.Steps = append([]vlib.Step{s1, s2}, tail...)
	}
	return c
}

// minimal returns the paths of ds that have no proper ancestor (or duplicate) in ds: the set of subtrees ds denotes.
func minimal(ds []vlib.IPath) map[string]bool {
	r := map[string]bool{}
	for i, d := range ds {
		covered := false
		for j, o := range ds {
			if i != j && o.Covers(d) && o.Canon() != d.Canon() {
				covered = true
			}
		}
		if !covered {
			r[d.Canon()] = true
		}
	}
	return r
}

func normalise(c vlib.Conf) vlib.Conf { return vlib.NormPresence(c) }

func written(u vlib.Conf) []vlib.IPath {
	var w []vlib.IPath
	for k := range u {
		w = append(w, vlib.MustCanon(k))
	}
	return w
}

func applyXML(base vlib.Conf, ch *vlib.XMLChange) vlib.Conf {
	c := base.Clone()
	for _, r := range ch.Replaces {
		c.ApplyDelete(r)
	}
	for _, d := range ch.Deletes {
		c.ApplyDelete(d)
	}
	for k, v := range ch.Updates {
		c.ApplyUpdate(vlib.MustCanon(k), v)
	}
	vlib.EnforceChoices(c, written(ch.Updates))
	return c
}

func applyJSON(base vlib.Conf, dels []vlib.IPath, leaves vlib.Conf) vlib.Conf {
	c := base.Clone()
	for _, d := range dels {
		c.ApplyDelete(d)
	}
	for k, v := range leaves {
		c.ApplyUpdate(vlib.MustCanon(k), v)
	}
	vlib.EnforceChoices(c, written(leaves))
	return c
}

// checkRenderings is the C10 oracle for one Set call.
func checkRenderings(base vlib.Conf, rec *vlib.SetRecord, r *vlib.Renderings, lab map[string]bool) *vlib.Failure {
	if len(r.Errs) > 0 {
		return vlib.Failf("C10:render-error", "rendering errors: %v", r.Errs)
	}
	if len(rec.Anomalies) > 0 {
		return vlib.Failf("C10:proto-anomaly", "proto payload: %v", rec.Anomalies)
	}
	// (1) semantic agreement on the change
	rProto := base.Clone()
	vlib.ApplyRecord(rProto, rec)
	{
		var w []vlib.IPath
		for _, u := range rec.Updates {
			w = append(w, u.Path)
		}
		vlib.EnforceChoices(rProto, w)
	}
	want := normalise(rProto)
	for _, ietf := range []bool{false, true} {
		raw, name := r.JSONNew, "json"
		if ietf {
			raw, name = r.IETFNew, "json-ietf"
		}
		leaves, an := vlib.DecodeJSONDoc(raw, ietf)
		if len(an) > 0 {
			return vlib.Failf("C10:"+name+"-malformed:"+anClass(an[0]), "%s change document %s: %v", name, raw, an)
		}
		got := normalise(applyJSON(base, rec.Deletes, leaves))
		if d := got.Diff(want); len(d) > 0 {
			return vlib.Failf("C10:"+name+"-disagrees-with-proto", "applying the %s rendering (%s + proto deletes) and the proto rendering to the same device configuration gives different results (%s vs proto):\n  %s\nproto updates=%s deletes=%s", name, raw, name, strings.Join(d, "\n  "), vlib.JSON(rec.Updates), vlib.JSON(rec.Deletes))
		}
	}
	for _, o := range vlib.AllXMLOpts(true) {
		raw := r.XML[o]
		ch := vlib.DecodeXMLDoc(raw, o.HonorNS)
		if f := xmlClaims(o, raw, ch); f != nil {
			return f
		}
		if len(ch.Replaces) > 0 {
			lab["xml-replace-operation"] = true
		}
		// whatever the device happens to hold: every subtree the XML rendering deletes is deleted by the proto rendering
		// too. (The converse does not hold on the unchanged tree and is not demanded: the XML rendering leaves out
		// deletes of nodes that were never delivered - a NETCONF delete of a missing node is an error - the proto
		// rendering sends them, a gNMI delete of a missing path is a no-op. Applied to the device both give the same.)
		if len(ch.Replaces) == 0 {
			for _, xd := range ch.Deletes {
				covered := false
				for _, pd := range rec.Deletes {
					if pd.Covers(xd) {
						covered = true
					}
				}
				if !covered {
					return vlib.Failf("C10:xml-deletes-more-than-proto", "the XML rendering (%s) deletes %s, no proto delete covers it: xml deletes %v, proto deletes %v\nxml: %s", o, xd.Canon(), setKeys(minimal(ch.Deletes)), setKeys(minimal(rec.Deletes)), raw)
				}
			}
		}
		got := normalise(applyXML(base, ch))
		if d := got.Diff(want); len(d) > 0 {
			sig := "C10:xml-disagrees-with-proto"
			if len(ch.Replaces) > 0 {
				sig += ":replace-operation"
			}
			fl := vlib.Failf(sig, "applying the XML rendering (%s) and the proto rendering to the same device configuration gives different results (xml vs proto):\n  %s\nxml: %s\nproto updates=%s deletes=%s\ndevice before: %s", o, strings.Join(d, "\n  "), raw, vlib.JSON(rec.Updates), vlib.JSON(rec.Deletes), vlib.JSON(base))
			// keep searching behind the known leaf-list replace finding: count it, skip this comparison only
			if len(ch.Replaces) > 0 && !replayingKnown && vlib.GetStats("C10").IsKnown(fl) {
				lab["excluded-xml-replace-comparison"] = true
				continue
			}
			return fl
		}
	}
	// (2) the full renderings denote the same leaf set
	all, _ := vlib.DecodeProtoChange(r.ProtoUpdAll, nil)
	if len(all.Anomalies) > 0 {
		return vlib.Failf("C10:proto-anomaly", "full proto rendering: %v", all.Anomalies)
	}
	full := vlib.Conf{}
	for _, u := range all.Updates {
		full.ApplyUpdate(u.Path, u.Den)
	}
	full = normalise(full)
	for _, ietf := range []bool{false, true} {
		raw, name := r.JSONAll, "json"
		if ietf {
			raw, name = r.IETFAll, "json-ietf"
		}
		leaves, an := vlib.DecodeJSONDoc(raw, ietf)
		if len(an) > 0 {
			return vlib.Failf("C10:"+name+"-malformed:"+anClass(an[0]), "full %s document %s: %v", name, raw, an)
		}
		got := vlib.Conf{}
		for k, v := range leaves {
			got.ApplyUpdate(vlib.MustCanon(k), v)
		}
		if d := normalise(got).Diff(full); len(d) > 0 {
			return vlib.Failf("C10:full-"+name+"-differs-from-proto", "the full %s rendering and the full proto rendering denote different leaf sets (%s vs proto):\n  %s\n%s", name, name, strings.Join(d, "\n  "), raw)
		}
	}
	for _, o := range vlib.AllXMLOpts(false) {
		raw := r.XML[o]
		ch := vlib.DecodeXMLDoc(raw, o.HonorNS)
		if f := xmlClaims(o, raw, ch); f != nil {
			return f
		}
		got := vlib.Conf{}
		for k, v := range ch.Updates {
			got.ApplyUpdate(vlib.MustCanon(k), v)
		}
		if d := normalise(got).Diff(full); len(d) > 0 {
			return vlib.Failf("C10:full-xml-differs-from-proto", "the full XML rendering (%s) and the full proto rendering denote different leaf sets (xml vs proto):\n  %s\n%s", o, strings.Join(d, "\n  "), raw)
		}
	}
	return nil
}

func setKeys(m map[string]bool) []string {
	var r []string
	for k := range m {
		r = append(r, k)
	}
	sort.Strings(r)
	return r
}

func anClass(a string) string {
	switch {
	case strings.Contains(a, "xml-namespace"):
		return "namespace"
	case strings.Contains(a, "xml-keys"):
		return "keys"
	case strings.Contains(a, "without a name"):
		return "empty-name"
	case strings.Contains(a, "module prefix"):
		return "module-prefix"
	case strings.Contains(a, "lacks key"):
		return "missing-key"
	case strings.Contains(a, "unknown"):
		return "unknown-node"
	}
	return "value"
}

func xmlClaims(o vlib.XMLOpt, raw string, ch *vlib.XMLChange) *vlib.Failure {
	if len(ch.Anomalies) > 0 {
		return vlib.Failf("C10:xml-malformed:"+anClass(ch.Anomalies[0]), "XML rendering (%s): %v\n%s", o, ch.Anomalies, raw)
	}
	for i, op := range ch.DelOps {
		wantOp := "delete"
		if o.UseRemove {
			wantOp = "remove"
		}
		if op != wantOp {
			return vlib.Failf("C10:xml-delete-operation", "XML rendering (%s): deletion of %s carries operation %q, configured is %q\n%s", o, ch.Deletes[i].Canon(), op, wantOp, raw)
		}
		if ch.DelPfx[i] != o.OpWithNS {
			return vlib.Failf("C10:xml-operation-namespace", "XML rendering (%s): deletion of %s: nc: prefix=%v, operationWithNamespace=%v\n%s", o, ch.Deletes[i].Canon(), ch.DelPfx[i], o.OpWithNS, raw)
		}
	}
	return nil
}

func Exec(c *vlib.HistCase) (nontrivial bool, labels []string, fail *vlib.Failure) {
	ctx := context.Background()
	env := vlib.MustEnv()
	h, err := vlib.NewHistEnv(ctx, env, c, vlib.HistEnvOpts{})
	if err != nil {
		fmt.Fprintf(os.Stderr, "HARNESS-ERROR %v\n", err)
		os.Exit(2)
	}
	defer h.DS.Stop()
	// the device is a YANG server: an edit that writes a node of one case removes the other cases' nodes, so the
	// device never holds two cases of a choice (an unmanaged node of a case goes away when an intent picks another)
	h.Dev.EnforceChoices = true
	lab := map[string]bool{}
	var f *vlib.Failure
	h.Dev.OnSet = func(ctx context.Context, src target.TargetSource, rec *vlib.SetRecord) {
		if f != nil {
			return
		}
		base := h.Dev.Snapshot()
		r := vlib.RenderAll(ctx, src)
		if len(rec.Deletes) > 0 && len(rec.Updates) > 0 {
			nontrivial = true
			lab["delete-and-update"] = true
		}
		for _, d := range rec.Deletes {
			if len(d) > 0 && len(d[len(d)-1].Keys) > 0 {
				lab["delete-of-list-entry"] = true
			}
		}
		for _, u := range rec.Updates {
			if n := u.Path.Node(); n != nil {
				if n.Kind == vlib.KLeafList {
					lab["leaf-list-update"] = true
				}
				if n.Kind == vlib.KContainer {
					lab["presence-container"] = true
				}
				if n.NS == vlib.NSExt {
					lab["second-namespace"] = true
				}
			}
			for _, e := range u.Path {
				if len(e.Keys) > 1 {
					lab["multi-key-entry"] = true
				}
			}
		}
		f = checkRenderings(base, rec, r, lab)
	}
	for i, st := range c.Steps {
		if gone := h.ApplyDrift(st); len(gone) > 0 {
			lab["device-lost-configuration-before-step"] = true
		}
		res := h.RunStep(st)
		if f != nil {
			f.Detail = fmt.Sprintf("step %d: %s", i, f.Detail)
			return nontrivial, keys(lab), f
		}
		if !res.OK {
			vlib.GetStats("C10").Discard("step-refused")
			if os.Getenv("VERIF_DEBUG") != "" {
				fmt.Printf("DEBUG refused: %s\n", res.ErrText())
			}
			break
		}
	}
	return nontrivial, keys(lab), nil
}

func keys(m map[string]bool) []string {
	var r []string
	for k := range m {
		r = append(r, k)
	}
	return r
}

func TestProp(t *testing.T)   { prop.Check(t) }
func TestReplay(t *testing.T) { prop.Replay(t) }

// replayingKnown: the stored case of the known finding must fail the way it is recorded (no skipping)
var replayingKnown bool

func TestKnown(t *testing.T) {
	replayingKnown = true
	defer func() { replayingKnown = false }()
	prop.Known(t)
}
