// C15 — deviation reports are exact.
package c15

import (
	"context"
	"fmt"
	"os"
	"sort"
	"strings"
	"testing"

	"github.com/sdcio/cache/proto/cachepb"
	"github.com/sdcio/data-server/pkg/cache"
	sdcpb "github.com/sdcio/sdc-protos/sdcpb"
	"pgregory.net/rapid"
	"verif/harness/vlib"
)

func TestMain(m *testing.M) { vlib.Main(m) }

var tmpls = []vlib.Tmpl{
	vlib.T("plain/descr"), vlib.T("plain/num"), vlib.T("plain/flag"), vlib.T("plain/tags"), vlib.T("plain/pres"), vlib.T("plain/sub/y"),
	vlib.T("plain/l1/descr"), vlib.T("plain/l1/mtu"), vlib.T("plain/l1/tags"), vlib.T("plain/l2z/v"),
	vlib.T("types/i8"), vlib.T("types/u64"), vlib.T("types/d3"), vlib.T("types/bool"), vlib.T("types/enu"), vlib.T("types/idr"), vlib.T("types/uni"), vlib.T("types/bin"), vlib.T("types/ll-u8"), vlib.T("types/str"),
}
var uni = &vlib.Universe{Name: "dev", Tmpls: tmpls}
var palette = []string{"a", "a/a", "eth1"} // a / a/a: two-key entries whose "/"-joined forms collide

// palettes: the key values of a case (index 0 = the default ones); separators and characters with a meaning in
// paths: '/', ' ', '_', ':' (IPv6 / MAC addresses), brackets, '=', '*'
var palettes = [][]string{{"a", "a/a", "eth1"}, {"x:y", "fe80::1", "y"}, {"a", "a b", "b a"}, {"a_b", "a", "b_a"}, {"[z]", "k=v", "c.d"}, {"a", "a/b", "b/a"}, {"a+b", "aab", "a(b|c)"}}

type Perturb struct {
	Leaf vlib.LeafSel `json:"leaf"`
	Kind string       `json:"kind"` // change | delete | extra
}

type Case struct {
	// Pal: index into palettes
	Pal int `json:"pal,omitempty"`
	Intents  [][]vlib.LeafSel `json:"intents"` // owners 0..2, priority 10*(i+1)
	Forms    []string         `json:"forms"`
	Perturbs []Perturb        `json:"perturbs"`
	Streams  int              `json:"streams"`
	// Prios: owner i gets priority 10*(Prios[i]+1); nil = ascending (the order in which the intents are written is
	// always the owner order, so a permutation decouples write order from precedence)
	Prios []int `json:"prios,omitempty"`
	// Broken: this many further deviation clients whose Send fails from the first message on (a peer that is gone
	// but not removed yet); the healthy clients must still get the complete cycle
	Broken int `json:"broken,omitempty"`
}

func gen(t *rapid.T) *Case {
	c := &Case{Streams: rapid.IntRange(1, 2).Draw(t, "streams")}
	c.Pal = rapid.SampledFrom([]int{0, 0, 0, 1, 2, 3, 4, 5, 6}).Draw(t, "palette")
	n := rapid.IntRange(1, 3).Draw(t, "nintents")
	for i := 0; i < n; i++ {
		c.Intents = append(c.Intents, vlib.GenLeafSels(t, uni, 1, 6, "int"))
		c.Forms = append(c.Forms, rapid.SampledFrom([]string{"typed", "string", "json"}).Draw(t, "form"))
	}
	c.Prios = rapid.Permutation([]int{0, 1, 2}).Draw(t, "prios")[:n]
	if rapid.IntRange(0, 3).Draw(t, "broken-clients") == 2 {
		c.Broken = rapid.IntRange(1, 3).Draw(t, "nbroken")
	}
	collide := rapid.IntRange(0, 5).Draw(t, "colliding-entries") == 2
	if collide {
		// two entries of the two-key list whose textual forms collide under a "/"-join: (a, a/a) and (a/a, a)
		c.Intents[0] = append(c.Intents[0], vlib.LeafSel{T: 9, K: []int{0, 1}, V: rapid.IntRange(0, 2).Draw(t, "cv0")})
		c.Intents[n-1] = append(c.Intents[n-1], vlib.LeafSel{T: 9, K: []int{1, 0}, V: rapid.IntRange(0, 2).Draw(t, "cv1")})
	}
	np := rapid.IntRange(0, 6).Draw(t, "nperturb")
	for i := 0; i < np; i++ {
		c.Perturbs = append(c.Perturbs, Perturb{Leaf: vlib.GenLeafSels(t, uni, 1, 1, "pl")[0], Kind: rapid.SampledFrom([]string{"change", "delete", "extra", "extra", "respell"}).Draw(t, "pk")})
	}
	if collide {
		c.Perturbs = append(c.Perturbs, Perturb{Leaf: vlib.LeafSel{T: 9, K: rapid.SampledFrom([][]int{{0, 1}, {1, 0}}).Draw(t, "cdel")}, Kind: "delete"})
	}
	return c
}

var prop = vlib.Prop[*Case]{
	ID: "C15",
	Rule: "case = intended store built by transactions of 1..3 owners written in an order independent of their precedence (overlapping paths, every leaf type incl. decimal64, uint64, identityref, union, binary, leaf-lists, a non-alphabetical 2-key list; typed / string / JSON input so that stored and running representations can differ) + perturbations of the running store (changed, deleted, extra unhandled paths) + 1..2 deviation streams (sometimes next to 1..3 clients whose Send fails); one cycle is triggered through hook H3; " +
		"oracle = per stream: first message START, last END, each once; in between exactly the multiset derived from the two store dumps: UNHANDLED(path, current) for a running path no intent defines, NOT_APPLIED(ruling intent, path, expected = ruling value, current = running value or absent) iff running differs from or lacks the ruling value, OVERRULED(lower intent, path, its value, ruling value) iff its value differs from the ruling one, nothing where running and all intents agree; values compared by denotation; " +
		"non-trivial = the state has paths in at least three of the four categories (agreeing, NOT_APPLIED, OVERRULED, UNHANDLED); distinct = distinct case JSON",
	Gen:  gen,
	Exec: Exec,
}

func prioIx(c *Case, i int) int {
	if i < len(c.Prios) {
		return c.Prios[i]
	}
	return i
}

func harnessErr(err error) {
	fmt.Fprintf(os.Stderr, "HARNESS-ERROR %v\n", err)
	os.Exit(2)
}

type devMsg struct {
	Reason, Intent, Path, Expected, Current string
}

func (d devMsg) String() string {
	return fmt.Sprintf("%s intent=%q path=%s expected=%s current=%s", d.Reason, d.Intent, d.Path, d.Expected, d.Current)
}

func denOf(p vlib.IPath, tv *sdcpb.TypedValue) string {
	if tv == nil {
		return "<none>"
	}
	n := p.Node()
	if n == nil {
		return "<no-schema>"
	}
	d, err := vlib.DenoteTV(n, tv)
	if err != nil {
		return "<undecodable:" + err.Error() + ">"
	}
	return "=" + d
}

func Exec(c *Case) (nontrivial bool, labels []string, fail *vlib.Failure) {
	palette = palettes[c.Pal%len(palettes)]
	ctx := context.Background()
	env := vlib.MustEnv()
	hc := &vlib.HistCase{Universe: "plain", Palette: palette}
	h, err := vlib.NewHistEnv(ctx, env, hc, vlib.HistEnvOpts{})
	if err != nil {
		harnessErr(err)
	}
	defer h.DS.Stop()
	for i, sels := range c.Intents {
		conf := vlib.Conf{}
		for _, sel := range sels {
			p, v := uni.Resolve(sel, palette)
			conf[p.Canon()] = v
		}
		ri := vlib.ResolvedIntent{Name: fmt.Sprintf("own%d", i), Kind: "set", Prio: int32(10 * (prioIx(c, i) + 1)), Explicit: conf, Form: c.Forms[i%len(c.Forms)]}
		r, err := vlib.BuildIntentRequest(ri)
		if err != nil {
			harnessErr(err)
		}
		rsp, err := h.SetRequest(ri.Name, []*sdcpb.TransactionIntent{r}, nil, false)
		if err != nil || len(vlib.IntentErrorsOf(rsp)) > 0 {
			vlib.GetStats("C15").Discard("intent-refused")
			h.FreeSlot(ri.Name)
			return false, []string{"discard"}, nil
		}
		_ = h.DS.TransactionConfirm(ctx, ri.Name)
	}
	// perturb the running store
	respelled := false
	for _, pt := range c.Perturbs {
		p, v := uni.Resolve(pt.Leaf, palette)
		switch pt.Kind {
		case "delete":
			_ = env.Cache.Modify(ctx, h.DSName, &cache.Opts{Store: cachepb.Store_CONFIG}, [][]string{p.Slice(true)}, nil)
		case "respell":
			// the device reports the value it holds in another representation (same denotation)
			cur, err := vlib.DumpFlat(ctx, env.Cache, h.DSName, cachepb.Store_CONFIG)
			if err != nil {
				harnessErr(err)
			}
			if d, ok := cur.Conf()[p.Canon()]; ok {
				if tv := vlib.RespellTV(p.Node(), d); tv != nil {
					if err := vlib.WriteRawTV(ctx, env.Cache, h.DSName, cachepb.Store_CONFIG, p, tv); err != nil {
						harnessErr(err)
					}
					respelled = true
				}
			}
		case "change", "extra":
			// change: a different value of the domain; extra: whatever the selection says (often an unhandled path)
			if pt.Kind == "change" {
				dom := vlib.ValueDomain(p.Node())
				v = dom[(pt.Leaf.V+1)%len(dom)]
			}
			conf := vlib.Conf{p.Canon(): v}
			for _, kl := range p.ImpliedKeyLeaves() {
				conf[kl.Path.Canon()] = kl.Value
			}
			if err := vlib.WriteConfigStore(ctx, env.Cache, h.DSName, conf); err != nil {
				harnessErr(err)
			}
		}
	}
	// ground truth: the two dumps
	running, err := vlib.DumpFlat(ctx, env.Cache, h.DSName, cachepb.Store_CONFIG)
	if err != nil {
		harnessErr(err)
	}
	intended, err := vlib.DumpIntended(ctx, env.Cache, h.DSName)
	if err != nil {
		harnessErr(err)
	}
	run := running.Conf()
	byPath := map[string][]vlib.StoreEntry{}
	for _, e := range intended {
		byPath[e.Canon] = append(byPath[e.Canon], e)
	}
	var want []string
	cats := map[string]bool{}
	for _, p := range run.SortedKeys() {
		es := byPath[p]
		if len(es) == 0 {
			want = append(want, devMsg{"UNHANDLED", "", p, "<none>", "=" + run[p]}.String())
			cats["unhandled"] = true
		}
	}
	paths := make([]string, 0, len(byPath))
	for p := range byPath {
		paths = append(paths, p)
	}
	sort.Strings(paths)
	for _, p := range paths {
		es := byPath[p]
		sort.Slice(es, func(i, j int) bool { return es[i].Priority < es[j].Priority })
		rv, has := run[p]
		cur := "<none>"
		if has {
			cur = "=" + rv
		}
		if !has || rv != es[0].Den {
			want = append(want, devMsg{"NOT_APPLIED", es[0].Owner, p, "=" + es[0].Den, cur}.String())
			cats["not-applied"] = true
			if !has {
				cats["missing-in-running"] = true
			}
		} else {
			cats["agreeing"] = true
		}
		for _, e := range es[1:] {
			if e.Den != es[0].Den {
				want = append(want, devMsg{"OVERRULED", e.Owner, p, "=" + e.Den, "=" + es[0].Den}.String())
				cats["overruled"] = true
			}
		}
	}
	sort.Strings(want)
	n := 0
	for _, k := range []string{"agreeing", "not-applied", "overruled", "unhandled"} {
		if cats[k] {
			n++
		}
	}
	nontrivial = n >= 3
	lab := map[string]bool{}
	for k := range cats {
		lab[k] = true
	}
	if respelled {
		lab["running-value-respelled"] = true
	}
	// one cycle on the recording streams
	streams := map[string]sdcpb.DataServer_WatchDeviationsServer{}
	var recs []*vlib.FakeStream[sdcpb.WatchDeviationResponse]
	for i := 0; i < c.Streams; i++ {
		fs := vlib.NewFakeStream[sdcpb.WatchDeviationResponse](ctx)
		recs = append(recs, fs)
		streams[fmt.Sprintf("peer%d", i)] = fs
	}
	for i := 0; i < c.Broken; i++ {
		fs := vlib.NewFakeStream[sdcpb.WatchDeviationResponse](ctx)
		fs.FailFrom = 0
		streams[fmt.Sprintf("broken%d", i)] = fs
		lab["broken-client-present"] = true
	}
	h.DS.VerifRunDeviationCycle(ctx, streams)
	for si, fs := range recs {
		msgs := fs.Messages()
		where := fmt.Sprintf("stream %d of %d", si, c.Streams)
		if len(msgs) < 2 || msgs[0].GetEvent() != sdcpb.DeviationEvent_START || msgs[len(msgs)-1].GetEvent() != sdcpb.DeviationEvent_END {
			return nontrivial, keys(lab), vlib.Failf("C15:bracketing", "%s: cycle is not bracketed by START and END: %d messages, first=%v last=%v", where, len(msgs), first(msgs), last(msgs))
		}
		var got []string
		for _, m := range msgs[1 : len(msgs)-1] {
			if m.GetEvent() != sdcpb.DeviationEvent_UPDATE {
				return nontrivial, keys(lab), vlib.Failf("C15:bracketing", "%s: %v event inside the cycle", where, m.GetEvent())
			}
			p := vlib.FromSdcpb(m.GetPath())
			got = append(got, devMsg{m.GetReason().String(), m.GetIntent(), p.Canon(), denOf(p, m.GetExpectedValue()), denOf(p, m.GetCurrentValue())}.String())
		}
		sort.Strings(got)
		// messages about paths that exist in running are judged first; the reports for
		// paths missing in running form their own class
		part := func(msgs []string, present bool) []string {
			var r []string
			for _, m := range msgs {
				i := strings.Index(m, " path=")
				pth := m[i+6:]
				pth = pth[:strings.Index(pth, " expected=")]
				if _, ok := run[pth]; ok == present {
					r = append(r, m)
				}
			}
			return r
		}
		if d := vlib.DiffKeys(part(want, true), part(got, true)); len(d) > 0 {
			sig := "C15:" + classify(d)
			return nontrivial, keys(lab), vlib.Failf(sig, "%s: deviation messages differ from the model (- expected only, + reported only):\n  %s\nrunning: %s\nintended: %v", where, strings.Join(d, "\n  "), vlib.JSON(run), intended.Keys())
		}
		if d := vlib.DiffKeys(part(want, false), part(got, false)); len(d) > 0 {
			return nontrivial, keys(lab), vlib.Failf("C15:missing-in-running-report", "%s: reports for intended paths that are missing in running differ from the model (- expected only, + reported only):\n  %s\nrunning: %s\nintended: %v", where, strings.Join(d, "\n  "), vlib.JSON(run), intended.Keys())
		}
	}
	return nontrivial, keys(lab), nil
}

// classify the first difference into a root-cause-ish signature
func classify(d []string) string {
	var minus, plus []string
	for _, x := range d {
		if strings.HasPrefix(x, "- ") {
			minus = append(minus, x)
		} else {
			plus = append(plus, x)
		}
	}
	kind := func(s string) string {
		for _, r := range []string{"UNHANDLED", "NOT_APPLIED", "OVERRULED"} {
			if strings.Contains(s, r) {
				return strings.ToLower(r)
			}
		}
		return "other"
	}
	switch {
	case len(minus) > 0 && len(plus) > 0:
		s := "wrong-" + kind(minus[0])
		if strings.Contains(plus[0], "<none>") && strings.Contains(minus[0], "current=<none>") {
			s += ":missing-in-running"
		}
		return s
	case len(minus) > 0:
		return "unreported-" + kind(minus[0])
	default:
		s := "spurious-" + kind(plus[0])
		if strings.Contains(plus[0], "expected=<none> current=<none>") {
			s += ":missing-in-running"
		}
		return s
	}
}

func first(m []*sdcpb.WatchDeviationResponse) any {
	if len(m) == 0 {
		return nil
	}
	return m[0].GetEvent()
}
func last(m []*sdcpb.WatchDeviationResponse) any {
	if len(m) == 0 {
		return nil
	}
	return m[len(m)-1].GetEvent()
}

func keys(m map[string]bool) []string {
	var r []string
	for k := range m {
		r = append(r, k)
	}
	return r
}

func TestProp(t *testing.T)   { prop.Check(t) }
func TestReplay(t *testing.T) { prop.Replay(t) }
func TestKnown(t *testing.T)  { prop.Known(t) }
