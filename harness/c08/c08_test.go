// C08 — at most one case of a choice is ever configured.
package c08

import (
	"context"
	"fmt"
	"os"
	"sort"
	"strings"
	"testing"

	"pgregory.net/rapid"
	"verif/harness/vlib"
)

func TestMain(m *testing.M) { vlib.Main(m) }

var prop = vlib.Prop[*vlib.HistCase]{
	ID: "C08",
	Rule: "case = history of 1..10 multi-intent transactions over the choice subtree (top-level choice, choice inside list entries, choice nested in a case's container, multi-member cases, non-member siblings ca-x / ca_x / ia-x whose names extend a member's name) by 4 owners with distinct priorities; no intent populates two cases of one choice; " +
		"oracle = reference model after every successful step: per choice instance the case holding the live contribution with the lowest priority number among members wins, the device holds the merge restricted to winning cases, nodes of losing cases are absent, non-members follow the C01 rule; " +
		"non-trivial = some step changes the winning case of a populated choice instance, or a prefix-named non-member outranks every member of its choice; distinct = distinct case JSON",
	Gen: func(t *rapid.T) *vlib.HistCase {
		// choices inside list entries are a known finding: most cases avoid them by
		// construction so that the search continues on the other choice shapes
		u := vlib.UniChoiceNoList
		if rapid.IntRange(0, 5).Draw(t, "with-list-choice") == 0 {
			u = vlib.UniChoice
		}
		c := vlib.GenHistCase(t, vlib.HistGenOpts{Universe: u, MinSteps: 1, MaxSteps: 10, WithInit: false, AllowOrphan: false})
		if rapid.IntRange(0, 7).Draw(t, "layered-presence-member") == 3 {
			// a presence container that is a case member holds a value of its own from a weak owner and a child of
			// the strongest owner; a third owner with a priority in between populates another case
			idx := func(path string) int {
				for i, tm := range u.Tmpls {
					if tm.Path == path {
						return i
					}
				}
				return 0
			}
			own := rapid.Permutation([]int{0, 1, 2, 3}).Draw(t, "layer-owners")
			mk := func(o, prio int, path string) vlib.Step {
				return vlib.Step{Intents: []vlib.IntentOp{{Owner: o, Kind: "set", PrioIx: prio, Leaves: []vlib.LeafSel{{T: idx(path), V: rapid.IntRange(0, 2).Draw(t, "layer-v")}}, Form: "typed"}}}
			}
			other := rapid.SampledFrom([]string{"chc/ca", "chc/cl", "chc/ca2"}).Draw(t, "layer-other-case")
			pre := []vlib.Step{mk(own[0], 3, "chc/cbp"), mk(own[1], 0, "chc/cbp/y"), mk(own[2], 1, other)}
			if rapid.Bool().Draw(t, "layer-order") {
				pre[0], pre[1] = pre[1], pre[0]
			}
			c.Steps = append(pre, c.Steps...)
			if len(c.Steps) > 10 {
				c.Steps = c.Steps[:10]
			}
		}
		return c
	},
	Exec: Exec,
}

func Exec(c *vlib.HistCase) (nontrivial bool, labels []string, fail *vlib.Failure) {
	ctx := context.Background()
	env := vlib.MustEnv()
	h, err := vlib.NewHistEnv(ctx, env, c, vlib.HistEnvOpts{})
	if err != nil {
		fmt.Fprintf(os.Stderr, "HARNESS-ERROR %v\n", err)
		os.Exit(2)
	}
	defer h.DS.Stop()
	lab := map[string]bool{}
	prevWin := map[string]string{}
	ghost := map[string]string{}
	var firstKnown *vlib.Failure
	for i, st := range c.Steps {
		res := h.RunStep(st)
		if !res.OK {
			lab["step-refused"] = true
			vlib.GetStats("C08").Discard("step-refused:" + first(res.ErrText()))
			break
		}
		win := h.Model.ChoiceWinners()
		for inst, w := range win {
			if pw, ok := prevWin[inst]; ok && pw != w {
				nontrivial = true
				lab["winning-case-changed"] = true
				if strings.Contains(inst, "[") {
					lab["winning-case-changed-in-list-entry"] = true
				}
				if strings.Contains(inst, "/oi#") {
					lab["winning-case-changed-nested"] = true
				}
			}
		}
		for inst := range prevWin {
			if _, ok := win[inst]; !ok {
				lab["choice-emptied"] = true
			}
		}
		oldWin := prevWin
		prevWin = win
		if nonMemberOutranks(h.Model) {
			nontrivial = true
			lab["prefix-nonmember-outranks-members"] = true
		}
		if len(res.Resolved) > 1 {
			lab["multi-intent-tx"] = true
		}
		dev := h.Dev.Snapshot()
		if rec := h.Dev.LastRecord(); rec != nil && h.Dev.Calls() > res.DevCallsBefore && len(rec.Anomalies) > 0 {
			return nontrivial, keys(lab), vlib.Failf("C08:payload-anomaly", "step %d: %v", i, rec.Anomalies)
		}
		// The recorded finding: members of a case that newly wins in this step, held by intents outside the transaction,
		// are not sent. To keep searching behind it the harness remembers what the device lacks for that reason
		// ("ghosts": path -> value it should have received) and judges every later step against the device plus its ghosts.
		// A ghost goes away when its owner is part of a transaction again (then it is really sent) or the path is no
		// longer expected. The case still ends as a counted instance of the recorded finding, but only after the whole
		// history was checked; any other discrepancy wins.
		{
			inTx := map[string]bool{}
			for _, ri := range res.Resolved {
				inTx[ri.Name] = true
			}
			exp := h.Model.Expected()
			for p := range ghost {
				if ds := h.Model.Definers(p); len(ds) == 0 || inTx[ds[0].Name] {
					delete(ghost, p)
				} else if _, ok := exp[p]; !ok {
					delete(ghost, p)
				}
			}
			for p, v := range exp {
				ds := h.Model.Definers(p)
				if len(ds) == 0 || inTx[ds[0].Name] {
					continue
				}
				if _, has := dev[p]; has {
					continue
				}
				for _, cr := range vlib.ChoiceRefs(vlib.MustCanon(p)) {
					if oldWin[cr.Inst] != cr.Case && win[cr.Inst] == cr.Case {
						if _, known := ghost[p]; !known && firstKnown == nil {
							firstKnown = vlib.Failf("C08:A:newly-won-case-member-missing", "step %d (%s) winners=%v: path %s = %q held by %s (outside the transaction) belongs to the case that wins from this step on and was not sent to the device\ndevice: %s", i, describe(res), win, p, v, ds[0].Name, vlib.JSON(dev))
						}
						ghost[p] = v
						lab["newly-won-member-not-sent"] = true
					}
				}
			}
			for p, v := range ghost {
				if _, has := dev[p]; !has {
					dev[p] = v
				}
			}
		}
		if f := vlib.CheckConvergencePfx("C08", h.Model, dev, fmt.Sprintf("step %d (%s) winners=%v", i, describe(res), win)); f != nil {
			if strings.Contains(f.Detail, ": path /chc/ce[") && (strings.HasPrefix(f.Sig, "C08:B:losing-case") || strings.HasPrefix(f.Sig, "C08:A:")) {
				f.Sig += ":choice-in-list-entry"
			}
			return nontrivial, keys(lab), f
		}
		// at most one case per choice instance on the device
		cases := map[string]map[string]bool{}
		for p := range dev {
			for _, cr := range vlib.ChoiceRefs(vlib.MustCanon(p)) {
				if cases[cr.Inst] == nil {
					cases[cr.Inst] = map[string]bool{}
				}
				cases[cr.Inst][cr.Case] = true
			}
		}
		for inst, cs := range cases {
			if len(cs) > 1 {
				var n []string
				for c := range cs {
					n = append(n, c)
				}
				sort.Strings(n)
				sig := "C08:two-cases-configured"
				if strings.Contains(inst, "[") {
					sig += ":choice-in-list-entry"
				}
				return nontrivial, keys(lab), vlib.Failf(sig, "step %d (%s): device holds nodes of cases %v of choice %s\ndevice: %s", i, describe(res), n, inst, vlib.JSON(dev))
			}
		}
	}
	return nontrivial, keys(lab), firstKnown
}

// newlyWonMemberMissing: every expected-but-missing path is a member of a case
// that did not win before this step, defined by an intent outside the transaction.
// onlyOwedMissing: every expected path the device lacks is a member that was never sent when its case won.
func onlyOwedMissing(m *vlib.Model, dev vlib.Conf, owed map[string]bool) bool {
	exp := vlib.NormPresence(m.Expected())
	nd := vlib.NormPresence(dev)
	any := false
	for p, v := range exp {
		if got, ok := nd[p]; ok {
			if got != v {
				return false
			}
			continue
		}
		if n := vlib.MustCanon(p).Node(); len(m.Definers(p)) == 0 && n != nil && n.Kind == vlib.KContainer {
			continue
		}
		if !owed[p] {
			return false
		}
		any = true
	}
	return any
}

func newlyWonMemberMissing(m *vlib.Model, dev vlib.Conf, oldWin, win map[string]string, res *vlib.StepResult) bool {
	inTx := map[string]bool{}
	for _, ri := range res.Resolved {
		inTx[ri.Name] = true
	}
	exp := vlib.NormPresence(m.Expected())
	nd := vlib.NormPresence(dev)
	any := false
	for p, v := range exp {
		if got, ok := nd[p]; ok && got == v {
			continue
		}
		if _, ok := nd[p]; ok {
			return false // wrong value, not a missing member
		}
		ds := m.Definers(p)
		if n := vlib.MustCanon(p).Node(); len(ds) == 0 && n != nil && n.Kind == vlib.KContainer {
			// a presence container that exists only through its childs: judged by the childs
			continue
		}
		if len(ds) == 0 || inTx[ds[0].Name] {
			return false
		}
		newly := false
		for _, cr := range vlib.ChoiceRefs(vlib.MustCanon(p)) {
			if oldWin[cr.Inst] != cr.Case && win[cr.Inst] == cr.Case {
				newly = true
			}
		}
		if !newly {
			return false
		}
		any = true
	}
	return any
}

// nonMemberOutranks: a live non-member sibling whose name extends a member's
// name has a better priority than every member contribution of that choice.
func nonMemberOutranks(m *vlib.Model) bool {
	type nm struct{ parent, name string }
	pairs := []struct{ non, member string }{{"ca-x", "ca"}, {"ca_x", "ca"}, {"ia-x", "ia"}}
	merge := m.Merge()
	for p := range merge {
		ip := vlib.MustCanon(p)
		last := ip[len(ip)-1].Name
		for _, pr := range pairs {
			if last != pr.non {
				continue
			}
			parent := ip[:len(ip)-1]
			nonBest := m.Definers(p)[0].Prio
			// best member contribution in the same container instance
			best := int32(1<<31 - 1)
			found := false
			for _, it := range m.Intents {
				for q := range it.Leaves {
					iq := vlib.MustCanon(q)
					if len(iq) > len(parent) && parent.IsStrictAncestorOf(iq) && len(vlib.ChoiceRefs(iq)) > 0 {
						refs := vlib.ChoiceRefs(iq)
						if strings.HasPrefix(refs[0].Inst, parent.Canon()+"#") || refs[len(refs)-1].Inst == parent.Canon()+"#top" {
							found = true
							if it.Prio < best {
								best = it.Prio
							}
						}
					}
				}
			}
			if found && nonBest < best {
				return true
			}
		}
	}
	return false
}

func describe(r *vlib.StepResult) string {
	var s []string
	for _, ri := range r.Resolved {
		s = append(s, fmt.Sprintf("%s %s prio=%d %v", ri.Kind, ri.Name, ri.Prio, vlib.JSON(ri.Explicit)))
	}
	return strings.Join(s, "; ")
}

func first(s string) string {
	if len(s) > 60 {
		return s[:60]
	}
	return s
}

func keys(m map[string]bool) []string {
	var r []string
	for k := range m {
		r = append(r, k)
	}
	return r
}

func TestProp(t *testing.T)   { prop.Check(t) }
func TestReplay(t *testing.T) { prop.Replay(t) }
func TestKnown(t *testing.T)  { prop.Known(t) }
