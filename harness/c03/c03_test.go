// C03 — rejected and dry-run transactions change nothing; dry run predicts the real run.
package c03

import (
	"context"
	"fmt"
	"os"
	"sort"
	"strings"
	"testing"

	"github.com/sdcio/cache/proto/cachepb"
	"github.com/sdcio/data-server/pkg/config"
	sdcpb "github.com/sdcio/sdc-protos/sdcpb"
	"pgregory.net/rapid"
	"verif/harness/vlib"
)

func TestMain(m *testing.M) { vlib.Main(m) }

type Req struct {
	Intents []vlib.IntentOp `json:"intents"`
	Replace []int           `json:"replace,omitempty"` // fragment indices of a replace intent (nil = none)
	DryRun  bool            `json:"dry_run,omitempty"`
}

type Case struct {
	Palette []string `json:"palette"`
	Reqs    []Req    `json:"reqs"`
	// Initial: unmanaged running configuration the device holds before the first request
	Initial []vlib.LeafSel `json:"initial,omitempty"`
}

var (
	validFrags   = vlib.FragmentIdx(func(f vlib.Fragment) bool { return f.Class == "" })
	invalidFrags = vlib.FragmentIdx(func(f vlib.Fragment) bool { return f.Class != "" && !f.Lax })
	// classes whose violation does not depend on the rest of the configuration
	localInvalid = vlib.FragmentIdx(func(f vlib.Fragment) bool {
		return !f.Lax && (f.Class == "range" || f.Class == "length" || f.Class == "pattern" || f.Class == "min-elements" || f.Class == "max-elements")
	})
	mandInvalid = vlib.FragmentIdx(func(f vlib.Fragment) bool { return f.Class == "mandatory" })
)

func genFrags(t *rapid.T, label string) []int {
	n := rapid.IntRange(0, 3).Draw(t, label+"-nfrag")
	var r []int
	for i := 0; i < n; i++ {
		if rapid.IntRange(0, 3).Draw(t, label+"-bad") == 0 {
			r = append(r, rapid.SampledFrom(invalidFrags).Draw(t, label+"-inv"))
		} else {
			r = append(r, rapid.SampledFrom(validFrags).Draw(t, label+"-val"))
		}
	}
	return r
}

func gen(t *rapid.T) *Case {
	c := &Case{Palette: vlib.GenPalette(t)}
	if rapid.IntRange(0, 2).Draw(t, "has-initial") == 0 {
		c.Initial = vlib.GenLeafSels(t, vlib.UniPlain, 1, 6, "init")
	}
	o := vlib.HistGenOpts{Universe: vlib.UniPlain, AllowOrphan: true, Forms: []string{"typed", "string", "json"}}
	n := rapid.IntRange(1, 6).Draw(t, "nreq")
	for i := 0; i < n; i++ {
		var r Req
		ni := rapid.SampledFrom([]int{1, 1, 2, 2, 3}).Draw(t, "nintents")
		owners := rapid.Permutation([]int{0, 1, 2, 3}).Draw(t, "owners")
		for j := 0; j < ni; j++ {
			op := vlib.GenIntentOp(t, o, owners[j])
			if op.Kind == "set" {
				op.Frags = genFrags(t, "intent")
				if len(op.Leaves) > 2 {
					op.Leaves = op.Leaves[:2]
				}
			}
			r.Intents = append(r.Intents, op)
		}
		if rapid.IntRange(0, 7).Draw(t, "has-replace") == 0 {
			nf := rapid.IntRange(1, 3).Draw(t, "replace-n")
			for k := 0; k < nf; k++ {
				if rapid.IntRange(0, 2).Draw(t, "replace-bad") == 0 {
					if rapid.Bool().Draw(t, "replace-mandatory") {
						// a missing mandatory leaf is reported for another owner than the replace intent's values; together
						// with a warning (dangling leafref that does not require an instance) the findings spread over owners
						r.Replace = append(r.Replace, rapid.SampledFrom(mandInvalid).Draw(t, "replace-mand"))
						if rapid.Bool().Draw(t, "replace-warn") {
							r.Replace = append(r.Replace, vlib.FragmentIndex("ref-soft-dangling"))
						}
					} else {
						r.Replace = append(r.Replace, rapid.SampledFrom(localInvalid).Draw(t, "replace-inv"))
					}
				} else {
					r.Replace = append(r.Replace, rapid.SampledFrom(validFrags).Draw(t, "replace-val"))
				}
			}
		}
		r.DryRun = rapid.IntRange(0, 2).Draw(t, "dry") == 0
		c.Reqs = append(c.Reqs, r)
	}
	return c
}

var prop = vlib.Prop[*Case]{
	ID: "C03",
	Rule: "case = sequence of 1..6 TransactionSet requests over plain + constraint subtree: 1..3 intents built from valid fragments and fragments invalid in exactly one class (range, length, pattern, mandatory, leafref, must, min/max-elements, type admission), optional replace intent (valid, locally invalid, or lacking a mandatory leaf, possibly together with a warning-only finding), dry run or not; accepted real requests are confirmed and form the state for the next request; " +
		"oracle = (1) a request that returns an error, reports intent errors or is a dry run causes zero device Set calls, zero cache Modify calls and leaves full INTENDED and CONFIG dumps byte-identical; (2) a replace intent whose content the code itself rejects as a normal intent on an empty datastore must not come back as success; (3) an accepted dry run is followed by the identical real request and its reported updates/deletes must equal what the device receives and what the real response reports; " +
		"non-trivial = a request was rejected for a constraint class, or a dry run had a non-empty diff; distinct = distinct case JSON",
	Gen:  gen,
	Exec: Exec,
}

type snap struct {
	intended, config vlib.StoreDump
	devCalls         int
}

func harnessErr(err error) {
	fmt.Fprintf(os.Stderr, "HARNESS-ERROR %v\n", err)
	os.Exit(2)
}

func takeSnap(ctx context.Context, h *vlib.HistEnv) snap {
	i, err := vlib.DumpIntended(ctx, h.Env.Cache, h.DSName)
	if err != nil {
		harnessErr(err)
	}
	c, err := vlib.DumpFlat(ctx, h.Env.Cache, h.DSName, cachepb.Store_CONFIG)
	if err != nil {
		harnessErr(err)
	}
	return snap{intended: i, config: c, devCalls: h.Dev.Calls()}
}

// the leaf a "mandatory" fragment lacks
var mandatorySupplier = map[string]string{"mand-mc": "/cons/mc/musthave", "mand-svc": "/cons/svc[name=c]/kind"}

func replaceRequest(frs []int) (*sdcpb.TransactionIntent, vlib.Conf) {
	if frs == nil {
		return nil, nil
	}
	content := vlib.Conf{}
	for _, fi := range frs {
		for k, v := range vlib.Fragments[fi].Leaves {
			if _, dup := content[k]; !dup {
				content[k] = v
			}
		}
	}
	ri := vlib.ResolvedIntent{Name: "replace", Kind: "set", Prio: 2147483537, Explicit: content, Form: "typed"}
	r, err := vlib.BuildIntentRequest(ri)
	if err != nil {
		harnessErr(err)
	}
	return r, content
}

// rejectedAlone: the code itself rejects the content as a normal intent on an empty datastore.
func rejectedAlone(ctx context.Context, content vlib.Conf) bool {
	env := vlib.MustEnv()
	hc := &vlib.HistCase{Universe: "plain", Palette: []string{"a", "b", "c"}}
	h, err := vlib.NewHistEnv(ctx, env, hc, vlib.HistEnvOpts{})
	if err != nil {
		harnessErr(err)
	}
	defer h.DS.Stop()
	ri := vlib.ResolvedIntent{Name: "probe", Kind: "set", Prio: 10, Explicit: content, Form: "typed"}
	r, err := vlib.BuildIntentRequest(ri)
	if err != nil {
		harnessErr(err)
	}
	rsp, err := h.SetRequest("probe", []*sdcpb.TransactionIntent{r}, nil, true)
	return err != nil || len(vlib.IntentErrorsOf(rsp)) > 0
}

func changeSets(rec *vlib.SetRecord) (upd map[string]string, del []string) {
	upd = map[string]string{}
	for _, u := range rec.Updates {
		upd[u.Path.Canon()] = u.Den
	}
	for _, d := range rec.Deletes {
		del = append(del, d.Canon())
	}
	sort.Strings(del)
	return
}

func sameChange(a, b *vlib.SetRecord) string {
	au, ad := changeSets(a)
	bu, bd := changeSets(b)
	if d := vlib.Conf(au).Diff(vlib.Conf(bu)); len(d) > 0 {
		return "updates differ: " + strings.Join(d, "; ")
	}
	if strings.Join(ad, "|") != strings.Join(bd, "|") {
		return fmt.Sprintf("deletes differ: %v vs %v", ad, bd)
	}
	return ""
}

func Exec(c *Case) (nontrivial bool, labels []string, fail *vlib.Failure) {
	ctx := context.Background()
	env := vlib.MustEnv()
	deco := vlib.NewCacheDeco(env.Cache)
	hc := &vlib.HistCase{Universe: "plain", Palette: c.Palette, Initial: c.Initial}
	h, err := vlib.NewHistEnv(ctx, env, hc, vlib.HistEnvOpts{DS: vlib.DSOpts{Cache: deco, Validation: valCfg()}})
	if err != nil {
		harnessErr(err)
	}
	defer h.DS.Stop()
	lab := map[string]bool{}
	txn := 0
	for ri, rq := range c.Reqs {
		resolved := h.Model.ResolveStep(h.Uni, h.Palette, vlib.Step{Intents: rq.Intents})
		var reqs []*sdcpb.TransactionIntent
		for _, r := range resolved {
			x, err := vlib.BuildIntentRequest(r)
			if err != nil {
				harnessErr(err)
			}
			reqs = append(reqs, x)
		}
		for _, op := range rq.Intents {
			for _, fi := range op.Frags {
				if cl := vlib.Fragments[fi].Class; cl != "" {
					lab["class-"+cl] = true
				}
			}
		}
		repReq, repContent := replaceRequest(rq.Replace)
		repInvalid := false
		if repReq != nil {
			repInvalid = rejectedAlone(ctx, repContent)
			// a missing mandatory leaf is not a property of the replace content alone: a stored intent of another
			// owner may supply it, then the verdict of the empty datastore says nothing about this state
			for _, fi := range rq.Replace {
				if need := mandatorySupplier[vlib.Fragments[fi].Name]; need != "" && repInvalid {
					if _, supplied := h.Model.Merge()[need]; supplied {
						repInvalid = false
						lab["replace-mandatory-supplied-by-stored-intent"] = true
					}
				}
			}
			if repInvalid {
				lab["replace-invalid"] = true
			} else {
				lab["replace-valid"] = true
			}
		}
		before := takeSnap(ctx, h)
		if os.Getenv("VERIF_DEBUG") != "" {
			fmt.Printf("DEBUG before request %d: intended=%v config=%v dev=%s\n", ri, before.intended.Keys(), before.config.Keys(), vlib.JSON(h.Dev.Snapshot()))
		}
		deco.Reset()
		deco.Record = true
		txn++
		txid := fmt.Sprintf("t%d", txn)
		where := fmt.Sprintf("request %d (dry=%v replace=%v %s)", ri, rq.DryRun, rq.Replace, describe(resolved))
		rsp, err := h.SetRequest(txid, reqs, repReq, rq.DryRun)
		deco.Record = false
		if os.Getenv("VERIF_DEBUG") != "" {
			fmt.Printf("DEBUG %s\n   -> err=%v rsp=%v\n", where, err, rsp)
		}
		ierrs := map[string][]string{}
		if err == nil {
			ierrs = vlib.IntentErrorsOf(rsp)
		}
		refused := err != nil || len(ierrs) > 0
		if refused {
			lab["refused"] = true
			if len(resolved) > 1 {
				lab["refused-multi-intent"] = true
			}
			nontrivial = true
		}
		// (2) a failing replace intent is never reported as success
		if repInvalid && !refused {
			return nontrivial, keys(lab), vlib.Failf("C03:invalid-replace-accepted", "%s: the replace content %s is rejected by the code as a normal intent on an empty datastore, but the transaction came back as success (err=nil, no intent errors)", where, vlib.JSON(repContent))
		}
		if refused || rq.DryRun {
			// (1) nothing changed
			if n := h.Dev.Calls() - before.devCalls; n != 0 {
				sig := "C03:device-written"
				if rq.DryRun {
					sig += ":dry-run"
				} else {
					sig += ":rejected"
				}
				if repReq != nil {
					sig += ":with-replace"
				}
				return nontrivial, keys(lab), vlib.Failf(sig, "%s: outcome err=%v intentErrors=%v, yet the device received %d Set call(s): %s", where, err, ierrs, n, vlib.JSON(h.Dev.LastRecord()))
			}
			if n := deco.ModifyCount(); n != 0 {
				sig := "C03:cache-modified"
				if repReq != nil {
					sig += ":with-replace"
				}
				return nontrivial, keys(lab), vlib.Failf(sig, "%s: outcome err=%v intentErrors=%v, yet %d cache Modify call(s) were made: %v", where, err, ierrs, n, deco.CallList())
			}
			after := takeSnap(ctx, h)
			if d := vlib.DiffKeys(before.intended.Keys(), after.intended.Keys()); len(d) > 0 {
				return nontrivial, keys(lab), vlib.Failf("C03:intended-changed", "%s: intended store changed:\n%s", where, strings.Join(d, "\n"))
			}
			if d := vlib.DiffKeys(before.config.Keys(), after.config.Keys()); len(d) > 0 {
				return nontrivial, keys(lab), vlib.Failf("C03:running-changed", "%s: running store changed:\n%s", where, strings.Join(d, "\n"))
			}
			// the slot may be left occupied by a non-success outcome (C06's subject): free it without asserting
			_ = h.DS.TransactionCancel(ctx, txid)
			_ = h.DS.TransactionConfirm(ctx, txid)
			if _, open, _ := h.DS.VerifPeekTransaction(); open {
				vlib.GetStats("C03").Discard("slot-stuck-after-nonsuccess")
				return nontrivial, keys(lab), nil
			}
		}
		if refused {
			continue
		}
		if rq.DryRun {
			// (3) the identical request, for real, from the same state
			dry, _ := vlib.DecodeProtoChange(rsp.GetUpdate(), rsp.GetDelete())
			if len(dry.Updates)+len(dry.Deletes) > 0 {
				lab["dry-run-nonempty-diff"] = true
				nontrivial = true
			}
			var reqs2 []*sdcpb.TransactionIntent
			for _, r := range resolved {
				x, _ := vlib.BuildIntentRequest(r)
				reqs2 = append(reqs2, x)
			}
			repReq2, _ := replaceRequest(rq.Replace)
			txn++
			txid = fmt.Sprintf("t%d", txn)
			calls := h.Dev.Calls()
			rsp2, err2 := h.SetRequest(txid, reqs2, repReq2, false)
			if err2 != nil || len(vlib.IntentErrorsOf(rsp2)) > 0 {
				sig := "C03:dry-run-accepted-real-refused"
				if repReq != nil {
					sig += ":with-replace"
				}
				return nontrivial, keys(lab), vlib.Failf(sig, "%s: the dry run succeeded but the identical real request was refused: err=%v intentErrors=%v", where, err2, vlib.IntentErrorsOf(rsp2))
			}
			realRsp, _ := vlib.DecodeProtoChange(rsp2.GetUpdate(), rsp2.GetDelete())
			if d := sameChange(dry, realRsp); d != "" {
				sig := "C03:dry-run-vs-real-response"
				if repReq != nil {
					sig += ":with-replace"
				}
				return nontrivial, keys(lab), vlib.Failf(sig, "%s: dry-run response and real response disagree: %s", where, d)
			}
			if repReq == nil {
				if h.Dev.Calls() != calls+1 {
					return nontrivial, keys(lab), vlib.Failf("C03:real-run-set-calls", "%s: real run made %d device Set calls", where, h.Dev.Calls()-calls)
				}
				if d := sameChange(dry, h.Dev.LastRecord()); d != "" {
					return nontrivial, keys(lab), vlib.Failf("C03:dry-run-vs-device", "%s: dry-run response and the payload the device received disagree: %s", where, d)
				}
			}
		}
		// accepted for real: becomes part of the state
		h.Model.Apply(resolved)
		if err := h.DS.TransactionConfirm(ctx, txid); err != nil {
			return nontrivial, keys(lab), vlib.Failf("C03:confirm-failed", "%s: confirm of the accepted transaction failed: %v", where, err)
		}
		lab["accepted"] = true
	}
	return nontrivial, keys(lab), nil
}

func describe(rs []vlib.ResolvedIntent) string {
	var s []string
	for _, ri := range rs {
		s = append(s, fmt.Sprintf("%s %s prio=%d %v", ri.Kind, ri.Name, ri.Prio, vlib.JSON(ri.Explicit)))
	}
	return strings.Join(s, "; ")
}

func keys(m map[string]bool) []string {
	var r []string
	for k := range m {
		r = append(r, k)
	}
	return r
}

func TestProp(t *testing.T)   { prop.Check(t) }
func TestReplay(t *testing.T) { prop.Replay(t) }
func TestKnown(t *testing.T)  { prop.Known(t) }

func valCfg() *config.Validation {
	return &config.Validation{DisableConcurrency: os.Getenv("VERIF_SEQ") != ""}
}
