package vlib

import (
	"fmt"
	"sort"
	"strings"
)

// CheckIntendedStore is the C02 oracle: the INTENDED store, dumped through the
// real cache client, holds exactly each live intent's last accepted version.
func CheckIntendedStore(h *HistEnv, where string) *Failure {
	cc := h.Env.Cache
	dump, err := DumpIntended(h.Ctx, cc, h.DSName)
	if err != nil {
		return Failf("C02:dump-inconsistent", "%s: %v", where, err)
	}
	return CheckIntendedDump(h.Model, dump, where)
}

func CheckIntendedDump(m *Model, dump StoreDump, where string) *Failure {
	type key struct{ path, owner string }
	actual := map[key][]StoreEntry{}
	for _, e := range dump {
		actual[key{e.Canon, e.Owner}] = append(actual[key{e.Canon, e.Owner}], e)
	}
	// everything stored must belong to the last accepted version of a live intent
	keys := make([]key, 0, len(actual))
	for k := range actual {
		keys = append(keys, k)
	}
	sort.Slice(keys, func(i, j int) bool { return keys[i].path+"|"+keys[i].owner < keys[j].path+"|"+keys[j].owner })
	for _, k := range keys {
		es := actual[k]
		it, live := m.Intents[k.owner]
		if !live {
			return Failf("C02:stale:deleted-intent", "%s: intended store still holds %s of intent %q which is not live (prio %d, value %q)\n%s", where, k.path, k.owner, es[0].Priority, es[0].Den, storeCtx(m, dump))
		}
		want, has := it.Leaves[k.path]
		if !has {
			return Failf("C02:stale:removed-path", "%s: intended store holds %s for intent %q whose last accepted version does not contain it (prio %d, value %q)\n%s", where, k.path, k.owner, es[0].Priority, es[0].Den, storeCtx(m, dump))
		}
		if len(es) > 1 {
			return Failf("C02:stale:duplicate", "%s: intended store holds %d entries for (%s, %s): %s\n%s", where, len(es), k.path, k.owner, JSON(es), storeCtx(m, dump))
		}
		e := es[0]
		if e.Priority != it.Prio {
			return Failf("C02:wrong-priority", "%s: %s of intent %q stored with priority %d, last accepted priority is %d\n%s", where, k.path, k.owner, e.Priority, it.Prio, storeCtx(m, dump))
		}
		if e.Raw != "" || e.Den != want {
			return Failf("C02:wrong-value", "%s: %s of intent %q stored as %q %s, last accepted value is %q\n%s", where, k.path, k.owner, e.Den, e.Raw, want, storeCtx(m, dump))
		}
	}
	// every non-implied leaf of a live intent must be stored
	for _, it := range m.sorted() {
		for _, p := range it.Leaves.SortedKeys() {
			if _, ok := actual[key{p, it.Name}]; ok {
				continue
			}
			ip := MustCanon(p)
			if ip.IsKeyLeaf() {
				continue // whether key leaves are persisted is an implementation choice
			}
			if n := ip.Node(); n != nil && n.Kind == KContainer {
				// a presence container that also has content of this intent below it exists implicitly
				implied := false
				for q := range it.Leaves {
					if ip.IsStrictAncestorOf(MustCanon(q)) {
						implied = true
						break
					}
				}
				if implied {
					continue
				}
			}
			return Failf("C02:missing-entry", "%s: intent %q (prio %d) defines %s=%q but the intended store has no such entry\n%s", where, it.Name, it.Prio, p, it.Leaves[p], storeCtx(m, dump))
		}
	}
	return nil
}

func storeCtx(m *Model, dump StoreDump) string {
	var sb strings.Builder
	sb.WriteString("model intents:\n")
	for _, it := range m.sorted() {
		fmt.Fprintf(&sb, "  %s prio=%d %s\n", it.Name, it.Prio, JSON(it.Leaves))
	}
	sb.WriteString("intended store:\n")
	for _, e := range dump {
		fmt.Fprintf(&sb, "  %s owner=%s prio=%d value=%q %s\n", e.Canon, e.Owner, e.Priority, e.Den, e.Raw)
	}
	return sb.String()
}
