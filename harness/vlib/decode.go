package vlib

import (
	"encoding/base64"
	"encoding/json"
	"fmt"
	"math/big"
	"sort"
	"strings"

	"github.com/beevik/etree"
)

// Independent decoders of the southbound payload encodings (JSON, JSON_IETF,
// NETCONF XML), table-driven from the harness schema table. None of this
// uses data-server's importers or converters.

// LexToDenotation parses the YANG lexical representation s of a value of the
// scalar type into its denotation.
func LexToDenotation(st scalarType, s string) (string, error) {
	t := st.Type
	if t == "leafref" {
		return LexToDenotation(scalarType{Type: st.LeafrefTo}, s)
	}
	switch {
	case isIntType(t):
		b, ok := new(big.Int).SetString(strings.TrimSpace(s), 10)
		if !ok {
			return "", fmt.Errorf("%s: %q is not an integer", t, s)
		}
		lo, _ := new(big.Int).SetString(intBounds[t][0], 10)
		hi, _ := new(big.Int).SetString(intBounds[t][1], 10)
		if b.Cmp(lo) < 0 || b.Cmp(hi) > 0 {
			return "", fmt.Errorf("%s: %s out of range", t, b)
		}
		return b.String(), nil
	case t == "decimal64":
		return ParseDecimalLexical(strings.TrimSpace(s))
	case t == "boolean":
		if s == "true" || s == "false" {
			return s, nil
		}
		return "", fmt.Errorf("boolean: %q", s)
	case t == "empty":
		if s == "" {
			return "", nil
		}
		return "", fmt.Errorf("empty with text %q", s)
	case t == "identityref":
		if i := strings.Index(s, ":"); i >= 0 {
			s = s[i+1:]
		}
		if _, ok := Identities[s]; !ok {
			return "", fmt.Errorf("unknown identity %q", s)
		}
		return s, nil
	case t == "bits":
		f := strings.Fields(s)
		sort.Strings(f)
		return strings.Join(f, " "), nil
	case t == "binary":
		b, err := base64.StdEncoding.DecodeString(s)
		if err != nil {
			return "", fmt.Errorf("binary: %v", err)
		}
		return base64.StdEncoding.EncodeToString(b), nil
	case t == "enumeration":
		for _, e := range st.Enums {
			if e == s {
				return s, nil
			}
		}
		if len(st.Enums) == 0 {
			return s, nil
		}
		return "", fmt.Errorf("enumeration: %q is none of %v", s, st.Enums)
	}
	return s, nil
}

func NodeLexToDenotation(n *Node, s string) (string, error) {
	return LexToDenotation(nodeScalarType(n), s)
}

// ---------------------------------------------------------------- JSON

func jsonScalarToDenotation(st scalarType, v any, ietf bool) (string, error) {
	t := st.Type
	if t == "leafref" {
		return jsonScalarToDenotation(scalarType{Type: st.LeafrefTo}, v, ietf)
	}
	switch x := v.(type) {
	case json.Number:
		if isIntType(t) || t == "decimal64" || t == "union" {
			return LexToDenotation(st, x.String())
		}
		return "", fmt.Errorf("JSON number %s for type %s", x, t)
	case float64:
		return "", fmt.Errorf("decoder must use json.Number")
	case string:
		if t == "boolean" {
			return "", fmt.Errorf("boolean encoded as JSON string %q", x)
		}
		if t == "empty" {
			return "", fmt.Errorf("empty encoded as JSON string %q", x)
		}
		return LexToDenotation(st, x)
	case bool:
		if t == "boolean" || t == "union" {
			if x {
				return "true", nil
			}
			return "false", nil
		}
		return "", fmt.Errorf("JSON bool for type %s", t)
	case map[string]any:
		if t == "empty" && len(x) == 0 {
			return "", nil
		}
		return "", fmt.Errorf("JSON object for type %s", t)
	case []any:
		if t == "empty" && len(x) == 1 && x[0] == nil {
			return "", nil
		}
		return "", fmt.Errorf("JSON array for scalar type %s", t)
	case nil:
		if t == "empty" {
			return "", nil
		}
		return "", fmt.Errorf("JSON null for type %s", t)
	}
	return "", fmt.Errorf("unexpected JSON value %T for %s", v, t)
}

// DecodeJSONDoc decodes a JSON / JSON_IETF document rooted at the schema root
// into leaf paths and denotations (key leaves included).
func DecodeJSONDoc(raw string, ietf bool) (Conf, []string) {
	var doc any
	dec := json.NewDecoder(strings.NewReader(raw))
	dec.UseNumber()
	if err := dec.Decode(&doc); err != nil {
		return nil, []string{"json: " + err.Error()}
	}
	out := Conf{}
	var anomalies []string
	obj, ok := doc.(map[string]any)
	if !ok {
		return nil, []string{fmt.Sprintf("json root is %T", doc)}
	}
	decodeJSONObject(Root, IPath{}, obj, ietf, out, &anomalies)
	return out, anomalies
}

func decodeJSONObject(n *Node, at IPath, obj map[string]any, ietf bool, out Conf, anomalies *[]string) {
	names := make([]string, 0, len(obj))
	for k := range obj {
		names = append(names, k)
	}
	sort.Strings(names)
	for _, k := range names {
		v := obj[k]
		name := k
		mod := ""
		if i := strings.Index(k, ":"); i >= 0 {
			mod, name = k[:i], k[i+1:]
		}
		c := n.Child(name)
		if c == nil {
			*anomalies = append(*anomalies, fmt.Sprintf("json: unknown member %q under %s", k, at.Canon()))
			continue
		}
		if ietf {
			needPrefix := n == Root || n.Module != c.Module
			if needPrefix && mod != c.Module {
				*anomalies = append(*anomalies, fmt.Sprintf("json_ietf: member %q under %s must carry module prefix %q", k, at.Canon(), c.Module))
			}
			if !needPrefix && mod != "" && mod != c.Module {
				*anomalies = append(*anomalies, fmt.Sprintf("json_ietf: member %q under %s carries wrong module prefix", k, at.Canon()))
			}
		} else if mod != "" && mod != c.Module {
			*anomalies = append(*anomalies, fmt.Sprintf("json: member %q under %s carries wrong module prefix", k, at.Canon()))
		}
		p := append(at.Clone(), PE{Name: name})
		switch c.Kind {
		case KLeaf:
			d, err := jsonScalarToDenotation(nodeScalarType(c), v, ietf)
			if err != nil {
				*anomalies = append(*anomalies, fmt.Sprintf("json: %s: %v", p.Canon(), err))
				continue
			}
			out[p.Canon()] = d
		case KLeafList:
			arr, ok := v.([]any)
			if !ok {
				*anomalies = append(*anomalies, fmt.Sprintf("json: leaf-list %s is %T", p.Canon(), v))
				continue
			}
			var elems []string
			for _, e := range arr {
				d, err := jsonScalarToDenotation(nodeScalarType(c), e, ietf)
				if err != nil {
					*anomalies = append(*anomalies, fmt.Sprintf("json: %s: %v", p.Canon(), err))
					continue
				}
				elems = append(elems, d)
			}
			out[p.Canon()] = LLDenotation(elems)
		case KContainer:
			sub, ok := v.(map[string]any)
			if !ok {
				*anomalies = append(*anomalies, fmt.Sprintf("json: container %s is %T", p.Canon(), v))
				continue
			}
			if len(sub) == 0 {
				if c.Presence {
					out[p.Canon()] = ""
				} else {
					*anomalies = append(*anomalies, fmt.Sprintf("json: empty object for non-presence container %s", p.Canon()))
				}
				continue
			}
			decodeJSONObject(c, p, sub, ietf, out, anomalies)
		case KList:
			arr, ok := v.([]any)
			if !ok {
				*anomalies = append(*anomalies, fmt.Sprintf("json: list %s is %T", p.Canon(), v))
				continue
			}
			for _, e := range arr {
				eo, ok := e.(map[string]any)
				if !ok {
					*anomalies = append(*anomalies, fmt.Sprintf("json: list entry of %s is %T", p.Canon(), e))
					continue
				}
				ep := append(at.Clone(), PE{Name: name, Keys: map[string]string{}})
				complete := true
				for _, kn := range c.Keys {
					kv, has := eo[kn]
					if !has {
						kv, has = eo[c.Module+":"+kn]
					}
					if !has {
						*anomalies = append(*anomalies, fmt.Sprintf("json: entry of %s lacks key %s", p.Canon(), kn))
						complete = false
						continue
					}
					d, err := jsonScalarToDenotation(nodeScalarType(c.Child(kn)), kv, ietf)
					if err != nil {
						*anomalies = append(*anomalies, fmt.Sprintf("json: key %s of %s: %v", kn, p.Canon(), err))
						complete = false
						continue
					}
					ep[len(ep)-1].Keys[kn] = d
				}
				if !complete {
					continue
				}
				decodeJSONObject(c, ep, eo, ietf, out, anomalies)
			}
		}
	}
}

// ---------------------------------------------------------------- XML

// XMLChange is a decoded NETCONF edit-config payload.
type XMLChange struct {
	Updates   Conf    // leaves to write (merge)
	Deletes   []IPath // subtrees carrying operation delete / remove
	DelOps    []string
	DelPfx    []bool  // the operation attribute carried the nc: prefix
	Replaces  []IPath // elements carrying operation replace (root or leaf-lists)
	Anomalies []string
}

const ncBase = "urn:ietf:params:xml:ns:netconf:base:1.0"

// xmlOperation extracts the operation attribute of an element: (op, prefixed, ok)
func xmlOperation(e *etree.Element) (string, bool, bool) {
	for _, a := range e.Attr {
		if a.Key == "operation" {
			return a.Value, a.Space == "nc", true
		}
	}
	return "", false, false
}

// DecodeXMLDoc decodes an XML change document (root = the schema root).
// honorNS: verify that every element resolves to its schema node's namespace.
func DecodeXMLDoc(raw string, honorNS bool) *XMLChange {
	ch := &XMLChange{Updates: Conf{}}
	if strings.TrimSpace(raw) == "" {
		return ch
	}
	doc := etree.NewDocument()
	if err := doc.ReadFromString(raw); err != nil {
		ch.Anomalies = append(ch.Anomalies, "xml: "+err.Error())
		return ch
	}
	if op, _, ok := xmlOperation(&doc.Element); ok && op == "replace" {
		ch.Replaces = append(ch.Replaces, IPath{})
	}
	decodeXMLChildren(Root, IPath{}, doc.ChildElements(), "", honorNS, ch)
	return ch
}

func elemNS(e *etree.Element, inherited string) string {
	for _, a := range e.Attr {
		if a.Space == "" && a.Key == "xmlns" {
			return a.Value
		}
	}
	return inherited
}

func decodeXMLChildren(n *Node, at IPath, elems []*etree.Element, inheritedNS string, honorNS bool, ch *XMLChange) {
	llSeen := map[string][]string{}
	llOrder := []string{}
	for _, e := range elems {
		if e.Tag == "" {
			ch.Anomalies = append(ch.Anomalies, fmt.Sprintf("xml: element without a name under %s", at.Canon()))
			continue
		}
		c := n.Child(e.Tag)
		if c == nil {
			ch.Anomalies = append(ch.Anomalies, fmt.Sprintf("xml: unknown element <%s> under %s", e.Tag, at.Canon()))
			continue
		}
		ns := elemNS(e, inheritedNS)
		if honorNS && ns != c.NS {
			ch.Anomalies = append(ch.Anomalies, fmt.Sprintf("xml-namespace: <%s> under %s resolves to namespace %q, schema node is in %q", e.Tag, at.Canon(), ns, c.NS))
		}
		op, prefixed, hasOp := xmlOperation(e)
		if hasOp && prefixed {
			found := false
			for _, a := range e.Attr {
				if a.Space == "xmlns" && a.Key == "nc" && a.Value == ncBase {
					found = true
				}
			}
			if !found {
				ch.Anomalies = append(ch.Anomalies, fmt.Sprintf("xml: <%s> uses nc:operation without declaring xmlns:nc", e.Tag))
			}
		}
		p := append(at.Clone(), PE{Name: e.Tag})
		if hasOp && op != "delete" && op != "remove" && op != "replace" && op != "merge" && op != "create" {
			ch.Anomalies = append(ch.Anomalies, fmt.Sprintf("xml: <%s> carries unknown operation %q", e.Tag, op))
		}
		if hasOp && op == "replace" && c.Kind != KList {
			ch.Replaces = append(ch.Replaces, p)
		}
		switch c.Kind {
		case KLeaf:
			if hasOp && (op == "delete" || op == "remove") {
				ch.Deletes = append(ch.Deletes, p)
				ch.DelOps = append(ch.DelOps, op)
				ch.DelPfx = append(ch.DelPfx, prefixed)
				continue
			}
			d, err := NodeLexToDenotation(c, e.Text())
			if err != nil {
				ch.Anomalies = append(ch.Anomalies, fmt.Sprintf("xml: %s: %v", p.Canon(), err))
				continue
			}
			ch.Updates[p.Canon()] = d
		case KLeafList:
			if hasOp && (op == "delete" || op == "remove") {
				ch.Deletes = append(ch.Deletes, p)
				ch.DelOps = append(ch.DelOps, op)
				ch.DelPfx = append(ch.DelPfx, prefixed)
				continue
			}
			d, err := NodeLexToDenotation(c, e.Text())
			if err != nil {
				ch.Anomalies = append(ch.Anomalies, fmt.Sprintf("xml: %s: %v", p.Canon(), err))
				continue
			}
			if _, ok := llSeen[p.Canon()]; !ok {
				llOrder = append(llOrder, p.Canon())
			}
			llSeen[p.Canon()] = append(llSeen[p.Canon()], d)
		case KContainer:
			if hasOp && (op == "delete" || op == "remove") {
				ch.Deletes = append(ch.Deletes, p)
				ch.DelOps = append(ch.DelOps, op)
				ch.DelPfx = append(ch.DelPfx, prefixed)
				continue
			}
			kids := e.ChildElements()
			if len(kids) == 0 {
				if c.Presence {
					ch.Updates[p.Canon()] = ""
				} else {
					ch.Anomalies = append(ch.Anomalies, fmt.Sprintf("xml: empty element for non-presence container %s", p.Canon()))
				}
				continue
			}
			if c.Presence {
				// merging an element of a presence container creates the container
				ch.Updates[p.Canon()] = ""
			}
			decodeXMLChildren(c, p, kids, ns, honorNS, ch)
		case KList:
			kids := e.ChildElements()
			ep := append(at.Clone(), PE{Name: e.Tag, Keys: map[string]string{}})
			// keys must come first, in key-statement order
			complete := true
			for i, kn := range c.Keys {
				if i >= len(kids) || kids[i].Tag != kn {
					got := "<none>"
					if i < len(kids) {
						got = kids[i].Tag
					}
					ch.Anomalies = append(ch.Anomalies, fmt.Sprintf("xml-keys: entry of %s: child %d must be key <%s>, found <%s>", p.Canon(), i, kn, got))
				}
				var ke *etree.Element
				for _, k := range kids {
					if k.Tag == kn {
						ke = k
						break
					}
				}
				if ke == nil {
					ch.Anomalies = append(ch.Anomalies, fmt.Sprintf("xml-keys: entry of %s lacks key <%s>", p.Canon(), kn))
					complete = false
					continue
				}
				d, err := NodeLexToDenotation(c.Child(kn), ke.Text())
				if err != nil {
					ch.Anomalies = append(ch.Anomalies, fmt.Sprintf("xml: key %s of %s: %v", kn, p.Canon(), err))
					complete = false
					continue
				}
				ep[len(ep)-1].Keys[kn] = d
			}
			if !complete {
				continue
			}
			if hasOp && (op == "delete" || op == "remove") {
				ch.Deletes = append(ch.Deletes, ep)
				ch.DelOps = append(ch.DelOps, op)
				ch.DelPfx = append(ch.DelPfx, prefixed)
				continue
			}
			if hasOp && op == "replace" {
				ch.Replaces = append(ch.Replaces, ep)
			}
			decodeXMLChildren(c, ep, kids, ns, honorNS, ch)
		}
	}
	for _, k := range llOrder {
		ch.Updates[k] = LLDenotation(llSeen[k])
	}
	// a leaf-list rendered with operation replace on the parent: noted by the caller if needed
}
