package vlib

import (
	"context"
	"fmt"
	"sort"
	"strings"
	"time"

	"github.com/sdcio/cache/proto/cachepb"
	"github.com/sdcio/data-server/pkg/cache"
	sdcpb "github.com/sdcio/sdc-protos/sdcpb"
	"google.golang.org/protobuf/proto"
)

// SliceToIPath converts the cache's flattened element sequence into an
// instance path with the harness's own schema table. The cache stores key
// values in alphabetical order of the key names (that is how data-server
// flattens request paths).
func SliceToIPath(sl []string) (IPath, error) {
	var p IPath
	n := Root
	for i := 0; i < len(sl); i++ {
		c := n.Child(sl[i])
		if c == nil {
			return nil, fmt.Errorf("unknown element %q at %d in %v", sl[i], i, sl)
		}
		pe := PE{Name: sl[i]}
		if c.Kind == KList && i+1 < len(sl) {
			ks := append([]string{}, c.Keys...)
			sort.Strings(ks)
			if i+len(ks) >= len(sl) {
				return nil, fmt.Errorf("path %v: list %s lacks key values", sl, c.Name)
			}
			pe.Keys = map[string]string{}
			for _, k := range ks {
				i++
				pe.Keys[k] = sl[i]
			}
		}
		p = append(p, pe)
		n = c
	}
	return p, nil
}

// StoreEntry is one stored leaf.
type StoreEntry struct {
	Canon    string `json:"path"`
	Owner    string `json:"owner,omitempty"`
	Priority int32  `json:"prio,omitempty"`
	Den      string `json:"den"`
	Raw      string `json:"raw,omitempty"` // hex of value bytes when undecodable
	TS       int64  `json:"-"`
}

func (e StoreEntry) Key() string {
	return fmt.Sprintf("%s|%s|%d|%s", e.Canon, e.Owner, e.Priority, e.Den)
}

type StoreDump []StoreEntry

func (d StoreDump) Keys() []string {
	r := make([]string, len(d))
	for i, e := range d {
		r[i] = e.Key()
	}
	sort.Strings(r)
	return r
}

func (d StoreDump) Equal(o StoreDump) bool {
	return strings.Join(d.Keys(), "\n") == strings.Join(o.Keys(), "\n")
}

func DiffKeys(a, b []string) []string {
	am := map[string]int{}
	for _, k := range a {
		am[k]++
	}
	bm := map[string]int{}
	for _, k := range b {
		bm[k]++
	}
	var d []string
	for k, n := range am {
		if bm[k] != n {
			d = append(d, fmt.Sprintf("- %s (x%d vs x%d)", k, n, bm[k]))
		}
	}
	for k, n := range bm {
		if _, ok := am[k]; !ok {
			d = append(d, fmt.Sprintf("+ %s (x%d)", k, n))
		}
	}
	sort.Strings(d)
	return d
}

func denoteBytes(p IPath, b []byte) (string, string) {
	tv := &sdcpb.TypedValue{}
	if err := proto.Unmarshal(b, tv); err != nil {
		return "", fmt.Sprintf("unmarshal:%x", b)
	}
	n := p.Node()
	if n == nil {
		return "", fmt.Sprintf("noschema:%x", b)
	}
	den, err := DenoteTV(n, tv)
	if err != nil {
		return "", fmt.Sprintf("undecodable(%v):%x", err, b)
	}
	return den, ""
}

// DumpIntended reads the complete INTENDED store through the real cache client.
func DumpIntended(ctx context.Context, cc cache.Client, ds string) (StoreDump, error) {
	ctx, cancel := context.WithTimeout(ctx, 20*time.Second)
	defer cancel()
	ch, err := cc.GetKeys(ctx, ds, cachepb.Store_INTENDED)
	if err != nil {
		return nil, err
	}
	seen := map[string]bool{}
	var paths [][]string
	nkeys := 0
	for k := range ch {
		nkeys++
		key := strings.Join(k.GetPath(), "\x00")
		if !seen[key] {
			seen[key] = true
			paths = append(paths, k.GetPath())
		}
	}
	var dump StoreDump
	if len(paths) == 0 {
		return dump, nil
	}
	upds := cc.Read(ctx, ds, &cache.Opts{Store: cachepb.Store_INTENDED, Priority: -1}, paths, 0)
	dedup := map[string]bool{}
	for _, u := range upds {
		key := strings.Join(u.GetPath(), "\x00")
		if !seen[key] {
			continue // deeper path returned by a prefix read; it has its own key
		}
		id := fmt.Sprintf("%s|%s|%d|%d", key, u.Owner(), u.Priority(), u.TS())
		if dedup[id] {
			continue
		}
		dedup[id] = true
		p, err := SliceToIPath(u.GetPath())
		if err != nil {
			dump = append(dump, StoreEntry{Canon: "!" + strings.Join(u.GetPath(), ","), Owner: u.Owner(), Priority: u.Priority(), Raw: err.Error()})
			continue
		}
		den, raw := denoteBytes(p, u.Bytes())
		dump = append(dump, StoreEntry{Canon: p.Canon(), Owner: u.Owner(), Priority: u.Priority(), Den: den, Raw: raw, TS: u.TS()})
	}
	if len(dump) != nkeys {
		// every key must have been read back exactly once
		return dump, fmt.Errorf("intended dump: %d keys but %d values read", nkeys, len(dump))
	}
	sort.Slice(dump, func(i, j int) bool { return dump[i].Key() < dump[j].Key() })
	return dump, nil
}

// DumpFlat reads the complete CONFIG or STATE store.
func DumpFlat(ctx context.Context, cc cache.Client, ds string, store cachepb.Store) (StoreDump, error) {
	ctx, cancel := context.WithTimeout(ctx, 20*time.Second)
	defer cancel()
	upds := cc.Read(ctx, ds, &cache.Opts{Store: store}, [][]string{{}}, 0)
	var dump StoreDump
	for _, u := range upds {
		p, err := SliceToIPath(u.GetPath())
		if err != nil {
			dump = append(dump, StoreEntry{Canon: "!" + strings.Join(u.GetPath(), ","), Raw: err.Error()})
			continue
		}
		den, raw := denoteBytes(p, u.Bytes())
		dump = append(dump, StoreEntry{Canon: p.Canon(), Den: den, Raw: raw})
	}
	sort.Slice(dump, func(i, j int) bool { return dump[i].Key() < dump[j].Key() })
	return dump, nil
}

func (d StoreDump) Conf() Conf {
	c := Conf{}
	for _, e := range d {
		c[e.Canon] = e.Den
	}
	return c
}

// WriteConfigStore writes a configuration directly into the CONFIG store, as
// a completed sync would have (used for initial running configurations).
func WriteConfigStore(ctx context.Context, cc cache.Client, ds string, c Conf) error {
	return WriteStore(ctx, cc, ds, cachepb.Store_CONFIG, c)
}

// RespellTV returns the same value in another representation a device may report
// (decimal64 with one more fraction digit, string-like values as ascii_val), nil if there is none.
func RespellTV(n *Node, den string) *sdcpb.TypedValue {
	if n == nil || n.Kind != KLeaf {
		return nil
	}
	tv := TVFromDenotation(n, den)
	switch v := tv.GetValue().(type) {
	case *sdcpb.TypedValue_DecimalVal:
		d := v.DecimalVal
		if d.GetDigits() > 1<<58 || d.GetDigits() < -(1<<58) {
			return nil
		}
		return &sdcpb.TypedValue{Value: &sdcpb.TypedValue_DecimalVal{DecimalVal: &sdcpb.Decimal64{Digits: d.GetDigits() * 10, Precision: d.GetPrecision() + 1}}}
	case *sdcpb.TypedValue_StringVal:
		if n.Type == "string" {
			return &sdcpb.TypedValue{Value: &sdcpb.TypedValue_AsciiVal{AsciiVal: v.StringVal}}
		}
	}
	return nil
}

// WriteRawTV writes one typed value as is into the CONFIG or STATE store.
func WriteRawTV(ctx context.Context, cc cache.Client, ds string, store cachepb.Store, p IPath, tv *sdcpb.TypedValue) error {
	b, err := proto.Marshal(tv)
	if err != nil {
		return err
	}
	return cc.Modify(ctx, ds, &cache.Opts{Store: store}, nil, []*cache.Update{cache.NewUpdate(p.Slice(true), b, 0, "", 0)})
}

// WriteStore writes leaves directly into the CONFIG or STATE store.
// DeleteFromStore removes the given leaf paths from a store (what a sync cycle does for configuration the device lost).
func DeleteFromStore(ctx context.Context, cc cache.Client, ds string, store cachepb.Store, paths []IPath) error {
	var dels [][]string
	for _, p := range paths {
		dels = append(dels, p.Slice(true))
	}
	if len(dels) == 0 {
		return nil
	}
	return cc.Modify(ctx, ds, &cache.Opts{Store: store}, dels, nil)
}

func WriteStore(ctx context.Context, cc cache.Client, ds string, store cachepb.Store, c Conf) error {
	if len(c) == 0 {
		return nil
	}
	var upds []*cache.Update
	for _, k := range c.SortedKeys() {
		p := MustCanon(k)
		n := p.Node()
		if n == nil {
			return fmt.Errorf("no node for %s", k)
		}
		tv := StoredTVFromDenotation(n, c[k])
		b, err := proto.Marshal(tv)
		if err != nil {
			return err
		}
		upds = append(upds, cache.NewUpdate(p.Slice(true), b, 0, "", 0))
	}
	return cc.Modify(ctx, ds, &cache.Opts{Store: store}, nil, upds)
}

// RawStored renders the typed values a store holds for the given leaf paths as they are (representation included).
func RawStored(ctx context.Context, cc cache.Client, ds string, store cachepb.Store, paths []IPath) string {
	var sl [][]string
	for _, p := range paths {
		sl = append(sl, p.Slice(true))
	}
	opts := &cache.Opts{Store: store}
	if store == cachepb.Store_INTENDED {
		opts.Priority = -1
	}
	var r []string
	for _, u := range cc.Read(ctx, ds, opts, sl, 0) {
		tv := &sdcpb.TypedValue{}
		_ = proto.Unmarshal(u.Bytes(), tv)
		r = append(r, fmt.Sprintf("%s owner=%q prio=%d: %v", strings.Join(u.GetPath(), "/"), u.Owner(), u.Priority(), tv))
	}
	sort.Strings(r)
	return strings.Join(r, "\n  ")
}
