package vlib

import (
	"context"
	"fmt"
	"sync"
	"time"

	"google.golang.org/grpc/metadata"
)

// FakeStream implements grpc.ServerStreamingServer[T] for the harness: it
// records what is sent and can misbehave on request (C15, C19).
type FakeStream[T any] struct {
	Ctx    context.Context
	Cancel context.CancelFunc
	mu     sync.Mutex
	Sent   []*T
	// behaviour
	FailAt     int           // fail the Send with this 0-based index (-1 = never)
	FailFrom   int           // every Send from this index on fails (a broken stream stays broken; -1 = never)
	FailCancel bool          // the failing Send also cancels the stream context (as gRPC does on a broken stream)
	CancelAt   int           // cancel the context when this many messages were sent (-1 = never)
	Delay      time.Duration // every Send blocks this long (slow consumer)
	StallAt    int           // the Send with this index blocks until the context ends (-1 = never)
	OnSend     func(i int)
}

func NewFakeStream[T any](parent context.Context) *FakeStream[T] {
	ctx, cancel := context.WithCancel(parent)
	return &FakeStream[T]{Ctx: ctx, Cancel: cancel, FailAt: -1, FailFrom: -1, CancelAt: -1, StallAt: -1}
}

var ErrStreamInjected = fmt.Errorf("verif: injected stream send failure")

func (s *FakeStream[T]) Send(m *T) error {
	s.mu.Lock()
	i := len(s.Sent)
	s.mu.Unlock()
	if s.OnSend != nil {
		s.OnSend(i)
	}
	if s.StallAt == i {
		<-s.Ctx.Done()
		return s.Ctx.Err()
	}
	if s.Delay > 0 {
		select {
		case <-time.After(s.Delay):
		case <-s.Ctx.Done():
			return s.Ctx.Err()
		}
	}
	if s.FailAt == i || (s.FailFrom >= 0 && i >= s.FailFrom) {
		if s.FailCancel {
			s.Cancel()
		}
		s.mu.Lock()
		s.Sent = append(s.Sent, nil)
		s.mu.Unlock()
		return ErrStreamInjected
	}
	if err := s.Ctx.Err(); err != nil {
		return err
	}
	s.mu.Lock()
	s.Sent = append(s.Sent, m)
	n := len(s.Sent)
	s.mu.Unlock()
	if s.CancelAt >= 0 && n >= s.CancelAt {
		s.Cancel()
	}
	return nil
}

func (s *FakeStream[T]) Messages() []*T {
	s.mu.Lock()
	defer s.mu.Unlock()
	return append([]*T{}, s.Sent...)
}

func (s *FakeStream[T]) Context() context.Context     { return s.Ctx }
func (s *FakeStream[T]) SetHeader(metadata.MD) error  { return nil }
func (s *FakeStream[T]) SendHeader(metadata.MD) error { return nil }
func (s *FakeStream[T]) SetTrailer(metadata.MD)       {}
func (s *FakeStream[T]) SendMsg(m any) error          { return nil }
func (s *FakeStream[T]) RecvMsg(m any) error          { return nil }
