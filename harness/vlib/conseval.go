package vlib

import (
	"fmt"
	"regexp"
	"sort"
	"strconv"
	"strings"
	"unicode/utf8"
)

// Violation of one constraint of the harness schema's cons subtree.
type ConsViolation struct {
	Class string // range | length | pattern | must | mandatory | leafref | min-elements | max-elements
	Path  string
	Msg   string
	// Sub distinguishes the classes data-server is known to read laxly
	Sub string // "" | "pattern-substring" | "max-only-leaflist" | "must-over-int"
}

func (v ConsViolation) String() string { return fmt.Sprintf("%s@%s: %s", v.Class, v.Path, v.Msg) }

// Validators mirrors config.Validators (true = disabled).
type Validators struct {
	Mandatory, Leafref, MinMax, Pattern, Must, Length, Range bool
}

func (d Validators) disabled(class string) bool {
	switch class {
	case "mandatory":
		return d.Mandatory
	case "leafref":
		return d.Leafref
	case "min-elements", "max-elements":
		return d.MinMax
	case "pattern":
		return d.Pattern
	case "must":
		return d.Must
	case "length":
		return d.Length
	case "range":
		return d.Range
	}
	return false
}

var patRe = regexp.MustCompile(`^(?:[a-c]+[0-9])$`)
var patReUnanchored = regexp.MustCompile(`[a-c]+[0-9]`)

func inRanges(v int64, rs [][2]int64) bool {
	for _, r := range rs {
		if v >= r[0] && v <= r[1] {
			return true
		}
	}
	return false
}

// EvalCons evaluates the configuration (explicit leaves, canonical paths) with
// YANG semantics, hand-coded for exactly the constraints of /verif/schema.
func EvalCons(c Conf) []ConsViolation {
	var vs []ConsViolation
	add := func(class, path, sub, f string, a ...any) {
		vs = append(vs, ConsViolation{Class: class, Path: path, Sub: sub, Msg: fmt.Sprintf(f, a...)})
	}
	num := func(p string) (int64, bool) {
		s, ok := c[p]
		if !ok {
			return 0, false
		}
		n, err := strconv.ParseInt(s, 10, 64)
		return n, err == nil
	}
	// range
	if v, ok := num("/cons/rng-s"); ok && !inRanges(v, [][2]int64{{-100, -10}, {0, 0}, {5, 50}}) {
		add("range", "/cons/rng-s", "", "%d", v)
	}
	if v, ok := num("/cons/rng-u"); ok && !inRanges(v, [][2]int64{{1, 10}, {100, 200}}) {
		add("range", "/cons/rng-u", "", "%d", v)
	}
	if ll, ok := c["/cons/rng-ll"]; ok {
		for _, e := range ParseLL(ll) {
			n, _ := strconv.ParseInt(e, 10, 64)
			if n < 1 || n > 9 {
				add("range", "/cons/rng-ll", "", "%d", n)
			}
		}
	}
	// length
	if s, ok := c["/cons/len"]; ok {
		l := utf8.RuneCountInString(s)
		if !((l >= 2 && l <= 4) || l == 8) {
			add("length", "/cons/len", "", "%d", l)
		}
	}
	// pattern (anchored, RFC 7950 9.4.5)
	if s, ok := c["/cons/pat"]; ok && !patRe.MatchString(s) {
		sub := ""
		if patReUnanchored.MatchString(s) {
			sub = "pattern-substring"
		}
		add("pattern", "/cons/pat", sub, "%q", s)
	}
	// must
	if hi, ok := num("/cons/hi"); ok {
		lo, lok := num("/cons/lo")
		if !lok || hi < lo {
			add("must", "/cons/hi", "", "hi=%d lo=%v(%v)", hi, lo, lok)
		}
	}
	if hi, ok := num("/cons/ihi"); ok {
		lo, lok := num("/cons/ilo")
		if !lok || hi < lo {
			add("must", "/cons/ihi", "must-over-int", "ihi=%d ilo=%v(%v)", hi, lo, lok)
		}
	}
	if _, ok := c["/cons/modedep"]; ok && c["/cons/mode"] != "on" {
		add("must", "/cons/modedep", "", "mode=%q", c["/cons/mode"])
	}
	if _, ok := c["/cons/defdep"]; ok {
		dm, set := c["/cons/defmode"]
		if !set {
			dm = "on" // schema default
		}
		if dm != "on" {
			add("must", "/cons/defdep", "", "defmode=%q", dm)
		}
	}
	if _, ok := c["/cons/defdep2"]; ok {
		if dm, set := c["/cons/defmode"]; !set || dm != "off" {
			add("must", "/cons/defdep2", "", "defmode=%q (set=%v, default on)", dm, set)
		}
	}
	// a defaulted leaf whose own must fails on the default value
	sdPresent := false
	for k := range c {
		if k == "/cons/sd" || strings.HasPrefix(k, "/cons/sd/") {
			sdPresent = true
		}
	}
	if sdPresent {
		mode, set := c["/cons/sd/mode"]
		if !set {
			mode = "on"
		}
		if mode != "off" && c["/cons/sd/en"] != "true" {
			add("must", "/cons/sd/mode", "", "mode=%q (set=%v, default on) en=%q", mode, set, c["/cons/sd/en"])
		}
	}
	// collect list entries
	entries := func(list string) map[string]map[string]string {
		res := map[string]map[string]string{}
		for k, v := range c {
			p := MustCanon(k)
			if len(p) >= 2 && p[0].Name == "cons" && p[1].Name == list && len(p[1].Keys) > 0 {
				name := p[1].Keys["name"]
				if res[name] == nil {
					res[name] = map[string]string{}
				}
				if len(p) == 3 {
					res[name][p[2].Name] = v
				}
			}
		}
		return res
	}
	svc := entries("svc")
	for _, n := range sortedNames(svc) {
		if _, ok := svc[n]["kind"]; !ok {
			add("mandatory", fmt.Sprintf("/cons/svc[name=%s]/kind", n), "", "missing")
		}
	}
	mcPresent := false
	for k := range c {
		if k == "/cons/mc" || strings.HasPrefix(k, "/cons/mc/") {
			mcPresent = true
		}
	}
	if _, ok := c["/cons/mc/musthave"]; mcPresent && !ok {
		add("mandatory", "/cons/mc/musthave", "", "missing")
	}
	ref := entries("ref")
	for _, n := range sortedNames(ref) {
		if t, ok := ref[n]["target"]; ok {
			if _, exists := svc[t]; !exists {
				add("leafref", fmt.Sprintf("/cons/ref[name=%s]/target", n), "", "no svc %q", t)
			}
		}
		if nk, ok := ref[n]["needkind"]; ok {
			if svc[nk]["kind"] != "gold" {
				add("must", fmt.Sprintf("/cons/ref[name=%s]/needkind", n), "", "svc %q kind=%q", nk, svc[nk]["kind"])
			}
		}
		if v, ok := ref[n]["viasvc"]; ok {
			// leafref /cons/svc[name=current()/../svcname]/kind: some instance must carry the value
			sn, has := ref[n]["svcname"]
			if k, kok := svc[sn]["kind"]; !has || !kok || k != v {
				add("leafref", fmt.Sprintf("/cons/ref[name=%s]/viasvc", n), "", "svcname=%q(%v) kind=%q want %q", sn, has, k, v)
			}
		}
		if w, ok := ref[n]["wref"]; ok {
			// must ../../svc[name=current()]/weight = 5 (weight has the schema default 5)
			e, exists := svc[w]
			wt, set := e["weight"]
			if !exists || (set && wt != "5") {
				add("must", fmt.Sprintf("/cons/ref[name=%s]/wref", n), "", "svc %q exists=%v weight=%q", w, exists, wt)
			}
		}
		if _, ok := ref[n]["chk"]; ok {
			_, a := ref[n]["svcname"]
			_, b := ref[n]["soft"]
			if !a && !b {
				add("must", fmt.Sprintf("/cons/ref[name=%s]/chk", n), "", "neither svcname nor soft")
			}
		}
	}
	grp := entries("grp")
	for _, n := range sortedNames(grp) {
		if m, ok := grp[n]["members"]; ok {
			l := len(ParseLL(m))
			if l < 2 {
				add("min-elements", fmt.Sprintf("/cons/grp[name=%s]/members", n), "", "%d", l)
			}
			if l > 3 {
				add("max-elements", fmt.Sprintf("/cons/grp[name=%s]/members", n), "", "%d", l)
			}
		}
		if m, ok := grp[n]["maxonly"]; ok {
			if l := len(ParseLL(m)); l > 2 {
				add("max-elements", fmt.Sprintf("/cons/grp[name=%s]/maxonly", n), "max-only-leaflist", "%d", l)
			}
		}
	}
	return vs
}

func sortedNames(m map[string]map[string]string) []string {
	var r []string
	for k := range m {
		r = append(r, k)
	}
	sort.Strings(r)
	return r
}

// Enabled filters violations of disabled validators.
func Enabled(vs []ConsViolation, d Validators) []ConsViolation {
	var r []ConsViolation
	for _, v := range vs {
		if !d.disabled(v.Class) {
			r = append(r, v)
		}
	}
	return r
}
