package vlib

import (
	"context"
	"fmt"
	"os"
	"strings"
	"time"

	"github.com/sdcio/cache/proto/cachepb"
	"github.com/sdcio/data-server/pkg/config"
	schemaClient "github.com/sdcio/data-server/pkg/datastore/clients/schema"
	"github.com/sdcio/data-server/pkg/datastore/target"
	sdcpb "github.com/sdcio/sdc-protos/sdcpb"
	"pgregory.net/rapid"
)

// NETCONF closed loop: the datastore talks to a NETCONF device model through the REAL ncTarget in both directions.
// ncTarget.Set renders every change as an edit-config document (namespace / operation options drawn, commit through
// the candidate or directly into running); the device model applies the document with RFC 6241 semantics.
// ncTarget.Sync polls get-config, the XML2sdcpb adapter and the real Datastore.Sync loop build the running store the
// next transaction is computed against.
//
// Oracles after every successful step, once a get-config taken after the step is stored: (1) C01 on what the device
// holds, (2) running store == device, and at the end (3) all live intents re-submitted verbatim send no edit-config.
//
// Leaf-lists are left out of this universe: the recorded C10 finding (a changed leaf-list is rendered with
// operation="replace" on its parent) wipes sibling configuration on every device that implements RFC 6241.

var UniNC *Universe

func init() {
	var ts []Tmpl
	for _, p := range []string{"plain/descr", "plain/descr-long", "plain/a", "plain/a_b", "plain/num", "plain/flag", "plain/defleaf", "plain/pres", "plain/pres/inner", "plain/sub/x", "plain/sub/y",
		"plain/dc/dflt", "plain/dc/other", "plain/dc/in/z", "plain/extleaf", "plain/extc/e1",
		"plain/l1/descr", "plain/l1/descr-long", "plain/l1/mtu", "plain/l1/defmtu", "plain/l1/cfg/mode", "plain/l1/cfg/pres", "plain/l1/cfg/descr", "plain/l1/extattr", "plain/l1/sub/v",
		"plain/l2a/v", "plain/l2a/w", "plain/l2z/v", "plain/l3/v", "plain/l3a/v", "plain/il/v", "plain/il/w",
		"types/i8", "types/i64", "types/u8", "types/u64", "types/d1", "types/d3", "types/d18", "types/str", "types/bool", "types/enu", "types/bits", "types/bin", "types/emp", "types/idr", "types/uni",
		"plain/l1/descr", "plain/l1/mtu", "plain/l2a/v"} {
		ts = append(ts, T(p))
	}
	if os.Getenv("VERIF_NCLOOP_LEAFLISTS") != "" {
		// exploration only (see the note on leaf-lists above)
		for _, p := range []string{"plain/tags", "plain/l1/tags", "types/ll-str", "types/ll-u64", "types/ll-idr"} {
			ts = append(ts, T(p))
		}
	}
	UniNC = &Universe{Name: "nc-loop", Tmpls: ts}
	Universes[UniNC.Name] = UniNC
}

// NCLoop (HistCase has no room for it): the options travel in the GNMI field as "nc:<commit>:<ns><opns><rm>"
func GenNCLoop(t *rapid.T) *HistCase {
	c := GenHistCase(t, HistGenOpts{Universe: UniNC, MinSteps: 1, MaxSteps: 8, WithInit: true, AllowOrphan: true})
	b := func(l string) string {
		if rapid.Bool().Draw(t, l) {
			return "1"
		}
		return "0"
	}
	c.GNMI = "nc:" + rapid.SampledFrom([]string{"candidate", "running"}).Draw(t, "nc-commit") + ":" + b("nc-include-ns") + b("nc-op-with-ns") + b("nc-use-remove")
	c.Loop = true
	return c
}

type ncLoopTarget struct {
	target.Target
	dev *Device
}

func (t *ncLoopTarget) Get(ctx context.Context, req *sdcpb.GetDataRequest) (*sdcpb.GetDataResponse, error) {
	return t.dev.Get(ctx, req)
}

// LoopRollback: a transaction at the end of a closed-loop history that does not stay.
type LoopRollback struct {
	T         Step   `json:"t"`
	Ending    string `json:"ending"` // cancel | timeout
	AfterSync bool   `json:"after_sync,omitempty"` // the sync has stored what T changed before the rollback starts
}

// ExecNCLoop runs one history in the NETCONF closed loop. pfx is the signature prefix of the calling check; with
// reapply == false the oracles are (1) and (2) (C01 / C13 matters); with reapply == true (1) and (2) are
// preconditions - a case in which they do not hold is discarded - and oracle (3), C09's statement, is judged.
// With rollback != nil the history is a confirmed prefix; the rollback's transaction is applied and then cancelled (or
// left to its 300 ms timer) and C05's statement is judged: device and intended store are back where they were.
func ExecNCLoop(c *HistCase, pfx string, reapply bool, rollback *LoopRollback) (nontrivial bool, labels []string, fail *Failure) {
	keys := func(m map[string]bool) []string {
		var r []string
		for k := range m {
			r = append(r, k)
		}
		return r
	}
	describe := func(r *StepResult) string {
		var s []string
		for _, ri := range r.Resolved {
			s = append(s, fmt.Sprintf("%s %s prio=%d %v", ri.Kind, ri.Name, ri.Prio, JSON(ri.Explicit)))
		}
		return strings.Join(s, "; ")
	}
	// which oracle belongs to the calling check: "device holds the merge" is C01's statement, "the running store
	// mirrors the device" is C13's; for every other caller (and for the other one of these two) they are
	// preconditions - a case in which one fails is discarded and counted, the owning check reports it
	ownsDevice := pfx == "C01" && !reapply && rollback == nil
	ownsStore := pfx == "C13" && !reapply && rollback == nil
	pre := func(f *Failure) (bool, []string, *Failure) {
		GetStats(pfx).Discard("closed-loop-precondition:" + f.Sig)
		return false, []string{"discard"}, nil
	}
	ctx, cancel := context.WithCancel(context.Background())
	defer cancel()
	env := MustEnv()
	parts := strings.Split(c.GNMI, ":")
	if len(parts) != 3 || len(parts[2]) != 3 {
		fmt.Fprintf(os.Stderr, "HARNESS-ERROR bad nc loop options %q\n", c.GNMI)
		os.Exit(2)
	}
	nco := &config.SBINetconfOptions{CommitDatastore: parts[1], IncludeNS: parts[2][0] == '1', OperationWithNamespace: parts[2][1] == '1', UseOperationRemove: parts[2][2] == '1'}
	lab := map[string]bool{"netconf-closed-loop": true, "nc-commit-" + parts[1]: true, "nc-options-" + parts[2]: true}
	fake := NewNCFake()
	fake.ApplyEdits, fake.HonorNS = true, nco.IncludeNS
	sbi := &config.SBI{Type: "netconf", Address: "127.0.0.1", Port: 1, NetconfOptions: nco, ConnectRetry: 24 * time.Hour, Timeout: time.Second}
	opts := HistEnvOpts{WrapTarget: func(dev *Device) target.Target {
		scb := schemaClient.NewSchemaClientBound(SchemaRef(), env.SchemaClient)
		fake.SetConfig(nil, dev.Snapshot())
		return &ncLoopTarget{Target: target.NewNCTargetWithDriver("c01nc", sbi, scb, fake), dev: dev}
	}}
	opts.DS.Sync = &config.Sync{Validate: false, Buffer: 1000, WriteWorkers: 1, Config: []*config.SyncProtocol{
		{Name: "cfg", Protocol: "netconf", Paths: []string{"/plain", "/types"}, Interval: 50 * time.Millisecond}}}
	h, err := NewHistEnv(ctx, env, c, opts)
	if err != nil {
		fmt.Fprintf(os.Stderr, "HARNESS-ERROR %v\n", err)
		os.Exit(2)
	}
	defer h.DS.Stop()
	deco := opts.DS.Cache
	_ = deco
	go h.DS.Sync(ctx)

	// a get-config answered after now has been stored completely
	synced := func(what string) *Failure {
		_, g0 := fake.ConfigSnapshot()
		dl := time.Now().Add(20 * time.Second)
		for {
			_, g := fake.ConfigSnapshot()
			// two further answers: the first one may have been taken before the change, the cycle of the second one
			// ends before the third is requested
			if g >= g0+3 {
				return nil
			}
			if time.Now().After(dl) {
				return Failf(pfx+":ncloop:sync-stalled", "%s: %d get-config answers after 20 s (started at %d)", what, g, g0)
			}
			time.Sleep(2 * time.Millisecond)
		}
	}
	norm := func(c Conf) Conf {
		r := Conf{}
		for k, v := range c {
			p := MustCanon(k)
			if n := p.Node(); n == nil || n.Kind == KContainer || n.State {
				continue
			}
			r[k] = v
		}
		// key leaves only of entries that hold something else
		for k := range r {
			p := MustCanon(k)
			if !p.IsKeyLeaf() {
				continue
			}
			entry, other := p[:len(p)-1], false
			for o := range r {
				if q := MustCanon(o); !q.IsKeyLeaf() && entry.IsStrictAncestorOf(q) {
					other = true
					break
				}
			}
			if !other {
				delete(r, k)
			}
		}
		return r
	}
	checkStore := func(where string) *Failure {
		if f := synced(where); f != nil {
			return f
		}
		if an, _ := fake.TakeEditAnomalies(); len(an) > 0 {
			return Failf(pfx+":ncloop:edit-config-malformed", "%s: the device could not place parts of an edit-config document: %s", where, strings.Join(an, "; "))
		}
		dump, err := DumpFlat(context.Background(), env.Cache, h.DSName, cachepb.Store_CONFIG)
		if err != nil {
			return Failf(pfx+":ncloop:dump", "%v", err)
		}
		got := Conf{}
		for _, e := range dump {
			if e.Raw != "" {
				return Failf(pfx+":ncloop:undecodable-stored-value", "%s: the running store holds %s = %s", where, e.Canon, e.Raw)
			}
			got[e.Canon] = e.Den
		}
		dev, _ := fake.ConfigSnapshot()
		if d := norm(got).Diff(norm(dev)); len(d) > 0 {
			sig := pfx + ":ncloop:running-differs-from-device"
			switch {
			case strings.Contains(d[0], "vs <absent>"):
				sig += ":extra-path"
			case strings.Contains(d[0], "<absent> vs"):
				sig += ":missing-path"
			default:
				sig += ":wrong-value"
			}
			return Failf(sig, "%s: NETCONF closed loop (%s): the running store differs from the device (store vs device):\n  %s\nstore: %s\ndevice: %s", where, c.GNMI, strings.Join(d, "\n  "), JSON(norm(got)), JSON(norm(dev)))
		}
		return nil
	}
	if f := checkStore("initial sync"); f != nil {
		if !ownsStore {
			return pre(f)
		}
		return false, keys(lab), f
	}
	refused := false
	for i, st := range c.Steps {
		res := h.RunStep(st)
		if !res.OK {
			lab["step-refused"] = true
			GetStats(pfx).Discard("step-refused")
			refused = true
			break
		}
		for _, l := range res.Effect.Labels {
			lab[l] = true
		}
		if res.Effect.WinnerChanged || res.Effect.ShadowerRemoved {
			nontrivial = true
		}
		where := fmt.Sprintf("step %d (%s)", i, describe(res))
		dev, _ := fake.ConfigSnapshot()
		if f := CheckConvergenceConf(h.Model, dev, where+" [NETCONF device]"); f != nil {
			f.Sig = strings.Replace(f.Sig, "C01:", pfx+":ncloop:", 1)
			_, calls := fake.TakeEditAnomalies()
			f.Detail += fmt.Sprintf("\noptions %s, %d documents applied, last calls: %s", c.GNMI, calls, JSON(fake.CallsFrom(max(0, fake.CallCount()-4))))
			if !ownsDevice {
				return pre(f)
			}
			return nontrivial, keys(lab), f
		}
		if f := checkStore(where); f != nil {
			if !ownsStore {
				return pre(f)
			}
			return nontrivial, keys(lab), f
		}
	}
	if rollback != nil && !refused {
		devBefore, _ := fake.ConfigSnapshot()
		mergeBefore := h.Model.Merge()
		intBefore, err := DumpIntended(context.Background(), env.Cache, h.DSName)
		if err != nil {
			return pre(Failf(pfx+":ncloop:dump", "%v", err))
		}
		h.Timeout = time.Hour
		if rollback.Ending == "timeout" {
			h.Timeout = 300 * time.Millisecond
		}
		res := h.SubmitStep(rollback.T)
		if !res.OK {
			h.FreeSlot(res.TxID)
			GetStats(pfx).Discard("T-refused")
			return false, []string{"discard"}, nil
		}
		lab["rollback-"+rollback.Ending] = true
		devMid, _ := fake.ConfigSnapshot()
		if len(norm(devMid).Diff(norm(devBefore))) > 0 {
			nontrivial = true
		}
		if rollback.AfterSync && rollback.Ending == "cancel" {
			if f := synced("after T"); f != nil {
				return pre(f)
			}
			lab["rollback-after-sync-saw-T"] = true
		}
		if rollback.Ending == "cancel" {
			if err := h.DS.TransactionCancel(ctx, res.TxID); err != nil {
				return nontrivial, keys(lab), Failf(pfx+":ncloop:cancel-refused", "TransactionCancel of %s: %v", res.TxID, err)
			}
		} else {
			dl := time.Now().Add(10 * time.Second)
			for {
				if _, isOpen, _ := h.DS.VerifPeekTransaction(); !isOpen {
					break
				}
				if time.Now().After(dl) {
					return nontrivial, keys(lab), Failf(pfx+":ncloop:still-open-after-timeout", "transaction %s (timeout 300 ms) is still open after 10 s", res.TxID)
				}
				time.Sleep(5 * time.Millisecond)
			}
			time.Sleep(50 * time.Millisecond)
		}
		devAfter, _ := fake.ConfigSnapshot()
		if d := norm(devAfter).Diff(norm(devBefore)); len(d) > 0 {
			sig := pfx + ":ncloop:device-not-restored"
			// the recorded finding of C05: a path that held unmanaged running configuration before T took it over is
			// deleted by the rollback instead of getting its value back
			onlyUnmanaged := true
			na, nb := norm(devAfter), norm(devBefore)
			for k, vb := range nb {
				if va, ok := na[k]; ok && va == vb {
					continue
				}
				if _, managed := mergeBefore[k]; managed && !MustCanon(k).IsKeyLeaf() {
					onlyUnmanaged = false
				}
			}
			for k := range na {
				if _, ok := nb[k]; !ok {
					onlyUnmanaged = false
				}
			}
			if onlyUnmanaged {
				sig = pfx + ":device-not-restored:unmanaged-value-lost"
			}
			return nontrivial, keys(lab), Failf(sig, "NETCONF closed loop (%s), T ended by %s: the device differs from its configuration before T (after vs before):\n  %s\nT: %s\nlast calls: %s", c.GNMI, rollback.Ending, strings.Join(d, "\n  "), describe(res), JSON(fake.CallsFrom(max(0, fake.CallCount()-4))))
		}
		intAfter, err := DumpIntended(context.Background(), env.Cache, h.DSName)
		if err != nil {
			return pre(Failf(pfx+":ncloop:dump", "%v", err))
		}
		if d := DiffKeys(intBefore.Keys(), intAfter.Keys()); len(d) > 0 {
			return nontrivial, keys(lab), Failf(pfx+":ncloop:intended-not-restored", "NETCONF closed loop (%s), T ended by %s: the intended store differs from its content before T (- before only, + after only):\n  %s", c.GNMI, rollback.Ending, strings.Join(d, "\n  "))
		}
		if f := checkStore("after the rollback"); f != nil {
			return pre(f)
		}
		cancel()
		return nontrivial, keys(lab), nil
	}
	if reapply && !refused && len(h.Model.Intents) > 0 {
		nontrivial = true
		dev, _ := fake.ConfigSnapshot()
		before := fake.CallCount()
		if _, err := h.ReapplyAll("ncloop-reapply"); err != nil {
			return nontrivial, keys(lab), Failf(pfx+":ncloop:reapply-refused", "re-submitting the live intents verbatim was refused: %v", err)
		}
		for _, cl := range fake.CallsFrom(before) {
			if cl.Op == "EditConfig" || cl.Op == "Commit" {
				sig := pfx + ":ncloop:reapply-sends-edit"
				if cl.Op == "EditConfig" {
					// is everything in the document a presence container the device holds through its children only?
					ch := DecodeXMLDoc(cl.Doc, nco.IncludeNS)
					only := len(ch.Updates) > 0 && len(ch.Deletes) == 0 && len(ch.Replaces) == 0 && len(ch.Anomalies) == 0
					for k := range ch.Updates {
						p := MustCanon(k)
						if p.IsKeyLeaf() {
							continue
						}
						if n := p.Node(); n == nil || n.Kind != KContainer {
							only = false
							continue
						}
						kept := false
						for o := range dev {
							if q := MustCanon(o); p.IsStrictAncestorOf(q) && !q.IsKeyLeaf() {
								kept = true
							}
						}
						if !kept {
							only = false
						}
					}
					if only {
						sig += ":presence-container-kept-by-children"
					}
				}
				return nontrivial, keys(lab), Failf(sig, "re-submitting the live intents verbatim sent %s %s to the device\ndevice: %s", cl.Op, cl.Doc, JSON(norm(dev)))
			}
		}
		lab["reapplied-verbatim"] = true
	}
	cancel()
	return nontrivial, keys(lab), nil
}
