package vlib

import (
	"context"
	"encoding/json"
	"fmt"

	"github.com/sdcio/data-server/pkg/datastore/target"
	sdcpb "github.com/sdcio/sdc-protos/sdcpb"
)

// XMLOpt is one combination of the NETCONF rendering options.
type XMLOpt struct {
	OnlyNew, HonorNS, OpWithNS, UseRemove bool
}

func (o XMLOpt) String() string {
	b := func(x bool) int {
		if x {
			return 1
		}
		return 0
	}
	return fmt.Sprintf("new=%d,ns=%d,opns=%d,rm=%d", b(o.OnlyNew), b(o.HonorNS), b(o.OpWithNS), b(o.UseRemove))
}

func AllXMLOpts(onlyNew bool) []XMLOpt {
	var r []XMLOpt
	for i := 0; i < 8; i++ {
		r = append(r, XMLOpt{OnlyNew: onlyNew, HonorNS: i&1 != 0, OpWithNS: i&2 != 0, UseRemove: i&4 != 0})
	}
	return r
}

// Renderings holds every southbound rendering of one tree instance.
type Renderings struct {
	ProtoUpdNew []*sdcpb.Update
	ProtoUpdAll []*sdcpb.Update
	ProtoDel    []*sdcpb.Path
	JSONNew     string
	JSONAll     string
	IETFNew     string
	IETFAll     string
	XML         map[XMLOpt]string
	Errs        []string
}

// RenderAll asks the source for all four encodings (same tree instance).
func RenderAll(ctx context.Context, src target.TargetSource) *Renderings {
	r := &Renderings{XML: map[XMLOpt]string{}}
	var err error
	note := func(what string, err error) {
		if err != nil {
			r.Errs = append(r.Errs, what+": "+err.Error())
		}
	}
	r.ProtoUpdNew, err = src.ToProtoUpdates(ctx, true)
	note("ToProtoUpdates(true)", err)
	r.ProtoUpdAll, err = src.ToProtoUpdates(ctx, false)
	note("ToProtoUpdates(false)", err)
	r.ProtoDel, err = src.ToProtoDeletes(ctx)
	note("ToProtoDeletes", err)
	js := func(f func(bool) (any, error), only bool, what string) string {
		v, err := f(only)
		note(what, err)
		if err != nil {
			return ""
		}
		b, err := json.Marshal(v)
		note(what+" marshal", err)
		return string(b)
	}
	r.JSONNew = js(src.ToJson, true, "ToJson(true)")
	r.JSONAll = js(src.ToJson, false, "ToJson(false)")
	r.IETFNew = js(src.ToJsonIETF, true, "ToJsonIETF(true)")
	r.IETFAll = js(src.ToJsonIETF, false, "ToJsonIETF(false)")
	for _, only := range []bool{true, false} {
		for _, o := range AllXMLOpts(only) {
			doc, err := src.ToXML(o.OnlyNew, o.HonorNS, o.OpWithNS, o.UseRemove)
			note("ToXML("+o.String()+")", err)
			if err != nil || doc == nil {
				continue
			}
			s, err := doc.WriteToString()
			note("XML write", err)
			r.XML[o] = s
		}
	}
	return r
}
