package vlib

import (
	"crypto/sha256"
	"encoding/hex"
	"encoding/json"
	"fmt"
	"os"
	"path/filepath"
	"regexp"
	"sort"
	"strings"
	"sync"
)

// Stats collects what a check actually explored; it is flushed to
// $VERIF_STATS_DIR/<prop>-<pid>.json and aggregated by run.py into evidence.
type Stats struct {
	mu         sync.Mutex
	Property   string            `json:"property"`
	Cases      int               `json:"cases"`
	NonTrivial map[string]bool   `json:"-"`
	NTHashes   []string          `json:"nontrivial_hashes"`
	Labels     map[string]int    `json:"labels"`
	Samples    []json.RawMessage `json:"samples"`
	Excluded   map[string]int    `json:"excluded_by_known_finding"`
	Discarded  map[string]int    `json:"discarded"`
	Violations []Violation       `json:"violations"`
	KnownSeen  map[string]string `json:"known_seen"` // sig -> what fails (replayed known findings that still fail)
	Rule       string            `json:"rule"`
	Extra      map[string]any    `json:"extra,omitempty"`
	sampleSeen int
}

type Violation struct {
	Sig    string `json:"sig"`
	Replay string `json:"replay"`
	Detail string `json:"detail"`
}

var (
	statsMu  sync.Mutex
	statsAll = map[string]*Stats{}
)

func GetStats(prop string) *Stats {
	statsMu.Lock()
	defer statsMu.Unlock()
	if s, ok := statsAll[prop]; ok {
		return s
	}
	s := &Stats{Property: prop, NonTrivial: map[string]bool{}, Labels: map[string]int{}, Excluded: map[string]int{}, Discarded: map[string]int{}, KnownSeen: map[string]string{}, Extra: map[string]any{}}
	statsAll[prop] = s
	return s
}

func hashOf(b []byte) string {
	h := sha256.Sum256(b)
	return hex.EncodeToString(h[:8])
}

// Record one executed case.
func (s *Stats) Record(c any, nontrivial bool, labels ...string) {
	b, _ := json.Marshal(c)
	s.mu.Lock()
	defer s.mu.Unlock()
	s.Cases++
	for _, l := range labels {
		s.Labels[l]++
	}
	if nontrivial {
		s.NonTrivial[hashOf(b)] = true
	}
	// keep up to 5 samples, preferring non-trivial ones, spread over the run
	if len(b) < 8000 && (nontrivial || len(s.Samples) == 0) {
		s.sampleSeen++
		if len(s.Samples) < 5 {
			s.Samples = append(s.Samples, b)
		} else if s.sampleSeen%97 == 0 {
			s.Samples[(s.sampleSeen/97)%5] = b
		}
	}
}

func (s *Stats) Label(l string) {
	s.mu.Lock()
	s.Labels[l]++
	s.mu.Unlock()
}

func (s *Stats) Discard(reason string) {
	s.mu.Lock()
	s.Discarded[reason]++
	s.mu.Unlock()
}

func (s *Stats) SetRule(r string) { s.mu.Lock(); s.Rule = r; s.mu.Unlock() }

// ---------------------------------------------------------------- known findings

type KnownFinding struct {
	Property string `json:"property"`
	Sig      string `json:"sig"`    // regular expression matched against failure signatures (anchored)
	What     string `json:"what"`   // human description printed on the KNOWN-FINDING line
	Replay   string `json:"replay"` // stored minimal case (relative to /verif)
	Status   string `json:"status"` // "open" | "fixed"
	Commit   string `json:"commit,omitempty"`
	re       *regexp.Regexp
}

type knownFile struct {
	Findings []KnownFinding `json:"findings"`
}

var (
	knownOnce sync.Once
	known     []KnownFinding
)

func VerifRoot() string {
	if d := os.Getenv("VERIF_ROOT"); d != "" {
		return d
	}
	wd, _ := os.Getwd()
	for d := wd; d != "/" && d != "."; d = filepath.Dir(d) {
		if _, err := os.Stat(filepath.Join(d, "properties.jsonl")); err == nil {
			return d
		}
	}
	return "/verif"
}

func loadKnown() {
	knownOnce.Do(func() {
		b, err := os.ReadFile(filepath.Join(VerifRoot(), "known_findings.json"))
		if err != nil {
			return
		}
		var kf knownFile
		if err := json.Unmarshal(b, &kf); err != nil {
			fmt.Fprintf(os.Stderr, "HARNESS-ERROR known_findings.json: %v\n", err)
			os.Exit(2)
		}
		for _, f := range kf.Findings {
			if f.Status != "open" {
				continue // a fixed entry suppresses nothing
			}
			re, err := regexp.Compile("^(?:" + f.Sig + ")$")
			if err != nil {
				fmt.Fprintf(os.Stderr, "HARNESS-ERROR known_findings.json sig %q: %v\n", f.Sig, err)
				os.Exit(2)
			}
			f.re = re
			known = append(known, f)
		}
	})
}

// KnownFor returns the open known findings of a property.
func KnownFor(prop string) []KnownFinding {
	loadKnown()
	var r []KnownFinding
	for _, f := range known {
		if f.Property == prop {
			r = append(r, f)
		}
	}
	return r
}

func matchKnown(prop, sig string) *KnownFinding {
	loadKnown()
	for i := range known {
		if known[i].Property == prop && known[i].re.MatchString(sig) {
			return &known[i]
		}
	}
	return nil
}

// Failure describes one oracle failure.
type Failure struct {
	Sig    string // root-cause signature, e.g. "C01:A:wrong-value"
	Detail string
}

func (f *Failure) Error() string { return f.Sig + ": " + f.Detail }

func Failf(sig, format string, a ...any) *Failure {
	return &Failure{Sig: sig, Detail: fmt.Sprintf(format, a...)}
}

// IsKnown reports whether the failure matches an open known finding (and counts it).
func (s *Stats) IsKnown(f *Failure) bool {
	if kf := matchKnown(s.Property, f.Sig); kf != nil {
		s.mu.Lock()
		s.Excluded[f.Sig]++
		s.mu.Unlock()
		return true
	}
	return false
}

func sanitize(sig string) string {
	var sb strings.Builder
	for _, r := range sig {
		if (r >= 'a' && r <= 'z') || (r >= 'A' && r <= 'Z') || (r >= '0' && r <= '9') || r == '-' || r == '_' {
			sb.WriteRune(r)
		} else {
			sb.WriteByte('_')
		}
	}
	out := sb.String()
	if len(out) > 80 {
		out = out[:80]
	}
	return out
}

func ReplayDir() string {
	if d := os.Getenv("VERIF_REPLAY_DIR"); d != "" {
		return d
	}
	return filepath.Join(VerifRoot(), "replays")
}

// WriteReplay stores the failing case; while rapid shrinks, the file of the
// same signature is overwritten, so the last one written is the minimal case.
func (s *Stats) WriteReplay(c any, f *Failure) string {
	dir := ReplayDir()
	_ = os.MkdirAll(dir, 0o755)
	path := filepath.Join(dir, fmt.Sprintf("%s-%s.json", s.Property, sanitize(f.Sig)))
	doc := map[string]any{"property": s.Property, "sig": f.Sig, "detail": f.Detail, "case": c}
	b, _ := json.MarshalIndent(doc, "", " ")
	_ = os.WriteFile(path, b, 0o644)
	s.mu.Lock()
	found := false
	for i := range s.Violations {
		if s.Violations[i].Sig == f.Sig {
			s.Violations[i].Detail = f.Detail
			found = true
		}
	}
	if !found {
		s.Violations = append(s.Violations, Violation{Sig: f.Sig, Replay: path, Detail: f.Detail})
	}
	s.mu.Unlock()
	return path
}

// LoadReplay reads a replay file's case into out.
func LoadReplay(path string, out any) (sig string, err error) {
	b, err := os.ReadFile(path)
	if err != nil {
		return "", err
	}
	var doc struct {
		Sig  string          `json:"sig"`
		Case json.RawMessage `json:"case"`
	}
	if err := json.Unmarshal(b, &doc); err != nil {
		return "", err
	}
	return doc.Sig, json.Unmarshal(doc.Case, out)
}

// FlushAll writes every Stats object (called from TestMain).
func FlushAll() {
	dir := os.Getenv("VERIF_STATS_DIR")
	if dir == "" {
		return
	}
	_ = os.MkdirAll(dir, 0o755)
	statsMu.Lock()
	defer statsMu.Unlock()
	for _, s := range statsAll {
		s.mu.Lock()
		s.NTHashes = s.NTHashes[:0]
		for h := range s.NonTrivial {
			s.NTHashes = append(s.NTHashes, h)
		}
		sort.Strings(s.NTHashes)
		b, _ := json.Marshal(s)
		s.mu.Unlock()
		_ = os.WriteFile(filepath.Join(dir, fmt.Sprintf("%s-%d.json", s.Property, os.Getpid())), b, 0o644)
	}
}
