package vlib

import (
	"context"
	"encoding/json"
	"fmt"
	"net"
	"os"
	"sort"
	"strings"
	"sync"
	"time"

	"github.com/openconfig/gnmi/proto/gnmi"
	"github.com/sdcio/data-server/pkg/config"
	schemaClient "github.com/sdcio/data-server/pkg/datastore/clients/schema"
	"github.com/sdcio/data-server/pkg/datastore/target"
	sdcpb "github.com/sdcio/sdc-protos/sdcpb"
	"google.golang.org/grpc"
	"google.golang.org/grpc/codes"
	"google.golang.org/grpc/status"
	"google.golang.org/grpc/test/bufconn"
)

// GNMIDevice is an in-process gNMI server that models a device: it holds a
// configuration, applies SetRequests with gNMI semantics (decoded by the
// harness decoders only) and reports its configuration through Get and
// Subscribe. The real gnmiTarget of data-server talks to it over a bufconn
// dialer (target.New forwards grpc dial options), so no hook is needed.
type GNMIDevice struct {
	// NotifyOnSet: changes made through Set are reported on the STREAM subscriptions (closed loop with the real sync)
	NotifyOnSet bool
	gnmi.UnimplementedGNMIServer
	mu     sync.Mutex
	Config Conf
	Log    []*SetRecord
	// Encodings announced by Capabilities
	Encodings []gnmi.Encoding
	// FailAt: fail the Set call with this 1-based ordinal; 0 = never
	FailAt int
	calls  int
	// Chunk: maximum number of updates per reported notification (0 = no limit, -1 = one notification per parent node)
	Chunk int
	// Prefix: report with a notification prefix (the longest common path prefix of the notification's updates and
	// deletes, at least one element) and paths relative to it, as devices do
	Prefix bool
	// Blobs: with the JSON encodings report one JSON object per top-level container instead of scalar values per leaf
	Blobs bool
	// ConfigOnly: leave state nodes out of Get(CONFIG) answers (always done) and of subscriptions (if set)
	getCalls, getNotifs int
	queued, sent        int
	subs                map[*gnmiSub]struct{}
	lis                 *bufconn.Listener
	srv                 *grpc.Server
}

type gnmiSub struct {
	ch    chan *gnmi.Notification
	enc   gnmi.Encoding
	under []IPath
	done  chan struct{}
}

func NewGNMIDevice(initial Conf) *GNMIDevice {
	if initial == nil {
		initial = Conf{}
	}
	d := &GNMIDevice{Config: initial.Clone(), subs: map[*gnmiSub]struct{}{},
		Encodings: []gnmi.Encoding{gnmi.Encoding_JSON, gnmi.Encoding_JSON_IETF, gnmi.Encoding_PROTO, gnmi.Encoding_ASCII}}
	d.lis = bufconn.Listen(1 << 20)
	d.srv = grpc.NewServer()
	gnmi.RegisterGNMIServer(d.srv, d)
	go func() { _ = d.srv.Serve(d.lis) }()
	return d
}

func (d *GNMIDevice) DialOpts() []grpc.DialOption {
	return []grpc.DialOption{grpc.WithContextDialer(func(ctx context.Context, _ string) (net.Conn, error) { return d.lis.DialContext(ctx) })}
}

func (d *GNMIDevice) Stop() {
	d.srv.Stop()
	_ = d.lis.Close()
}

func (d *GNMIDevice) Snapshot() Conf {
	d.mu.Lock()
	defer d.mu.Unlock()
	return d.Config.Clone()
}

func (d *GNMIDevice) Calls() int { d.mu.Lock(); defer d.mu.Unlock(); return len(d.Log) }

func (d *GNMIDevice) LastRecord() *SetRecord {
	d.mu.Lock()
	defer d.mu.Unlock()
	if len(d.Log) == 0 {
		return nil
	}
	return d.Log[len(d.Log)-1]
}

// Counters: Get calls served, notifications carried by Get answers, notifications queued for / sent on subscriptions.
func (d *GNMIDevice) Counters() (getCalls, getNotifs, queued, sent int) {
	d.mu.Lock()
	defer d.mu.Unlock()
	return d.getCalls, d.getNotifs, d.queued, d.sent
}

func (d *GNMIDevice) Subscribers() int { d.mu.Lock(); defer d.mu.Unlock(); return len(d.subs) }

// ---------------------------------------------------------------- paths and values

func FromGNMIPath(prefix, p *gnmi.Path) IPath {
	var r IPath
	for _, pp := range []*gnmi.Path{prefix, p} {
		for _, e := range pp.GetElem() {
			pe := PE{Name: e.GetName()}
			if len(e.GetKey()) > 0 {
				pe.Keys = map[string]string{}
				for k, v := range e.GetKey() {
					pe.Keys[k] = v
				}
			}
			r = append(r, pe)
		}
	}
	return r
}

// GNMIQualifyIdentityKeys: the device spells identityref key values in its paths module:name (RFC 7951 style)
var GNMIQualifyIdentityKeys bool

func (p IPath) GNMI() *gnmi.Path {
	r := &gnmi.Path{}
	n := Root
	for _, e := range p {
		if n != nil {
			n = n.Child(e.Name)
		}
		ge := &gnmi.PathElem{Name: e.Name}
		if len(e.Keys) > 0 {
			ge.Key = map[string]string{}
			for k, v := range e.Keys {
				if GNMIQualifyIdentityKeys && n != nil {
					if kn := n.Child(k); kn != nil && kn.Type == "identityref" {
						if v == "purple" {
							v = ModExt + ":" + v
						} else {
							v = ModIds + ":" + v
						}
					}
				}
				ge.Key[k] = v
			}
		}
		r.Elem = append(r.Elem, ge)
	}
	return r
}

// GNMIDenote maps a gNMI typed value observed for schema node n to its denotation.
func GNMIDenote(n *Node, tv *gnmi.TypedValue) (string, error) {
	if tv == nil {
		return "", fmt.Errorf("nil gNMI typed value")
	}
	if n.Kind == KLeafList {
		ll, ok := tv.Value.(*gnmi.TypedValue_LeaflistVal)
		if !ok {
			return "", fmt.Errorf("leaf-list as %T", tv.Value)
		}
		sn := *n
		sn.Kind = KLeaf
		var el []string
		for _, e := range ll.LeaflistVal.GetElement() {
			d, err := GNMIDenote(&sn, e)
			if err != nil {
				return "", err
			}
			el = append(el, d)
		}
		return LLDenotation(el), nil
	}
	// map onto the sdcpb typed value of the same shape and reuse the denotation
	var s *sdcpb.TypedValue
	switch v := tv.Value.(type) {
	case *gnmi.TypedValue_StringVal:
		s = &sdcpb.TypedValue{Value: &sdcpb.TypedValue_StringVal{StringVal: v.StringVal}}
	case *gnmi.TypedValue_IntVal:
		s = &sdcpb.TypedValue{Value: &sdcpb.TypedValue_IntVal{IntVal: v.IntVal}}
	case *gnmi.TypedValue_UintVal:
		s = &sdcpb.TypedValue{Value: &sdcpb.TypedValue_UintVal{UintVal: v.UintVal}}
	case *gnmi.TypedValue_BoolVal:
		s = &sdcpb.TypedValue{Value: &sdcpb.TypedValue_BoolVal{BoolVal: v.BoolVal}}
	case *gnmi.TypedValue_BytesVal:
		s = &sdcpb.TypedValue{Value: &sdcpb.TypedValue_BytesVal{BytesVal: v.BytesVal}}
	case *gnmi.TypedValue_DecimalVal:
		s = &sdcpb.TypedValue{Value: &sdcpb.TypedValue_DecimalVal{DecimalVal: &sdcpb.Decimal64{Digits: v.DecimalVal.GetDigits(), Precision: v.DecimalVal.GetPrecision()}}}
	case *gnmi.TypedValue_DoubleVal:
		s = &sdcpb.TypedValue{Value: &sdcpb.TypedValue_DoubleVal{DoubleVal: v.DoubleVal}}
	case *gnmi.TypedValue_AsciiVal:
		s = &sdcpb.TypedValue{Value: &sdcpb.TypedValue_AsciiVal{AsciiVal: v.AsciiVal}}
	default:
		return "", fmt.Errorf("gNMI value kind %T", tv.Value)
	}
	return DenoteTV(n, s)
}

// NativeGNMI renders the denotations as the typed value a gNMI device sends in PROTO encoding (nil: no native form).
func NativeGNMI(n *Node, vals []string) *gnmi.TypedValue {
	one := func(d string) *gnmi.TypedValue {
		tv := TVFromDenotation(&Node{Kind: KLeaf, Type: n.Type, LeafrefTo: n.LeafrefTo, Enums: n.Enums, FracDigits: n.FracDigits}, d)
		switch v := tv.Value.(type) {
		case *sdcpb.TypedValue_StringVal:
			return &gnmi.TypedValue{Value: &gnmi.TypedValue_StringVal{StringVal: v.StringVal}}
		case *sdcpb.TypedValue_IntVal:
			return &gnmi.TypedValue{Value: &gnmi.TypedValue_IntVal{IntVal: v.IntVal}}
		case *sdcpb.TypedValue_UintVal:
			return &gnmi.TypedValue{Value: &gnmi.TypedValue_UintVal{UintVal: v.UintVal}}
		case *sdcpb.TypedValue_BoolVal:
			return &gnmi.TypedValue{Value: &gnmi.TypedValue_BoolVal{BoolVal: v.BoolVal}}
		case *sdcpb.TypedValue_BytesVal:
			return &gnmi.TypedValue{Value: &gnmi.TypedValue_BytesVal{BytesVal: v.BytesVal}}
		case *sdcpb.TypedValue_DecimalVal:
			return &gnmi.TypedValue{Value: &gnmi.TypedValue_DecimalVal{DecimalVal: &gnmi.Decimal64{Digits: v.DecimalVal.Digits, Precision: v.DecimalVal.Precision}}}
		case *sdcpb.TypedValue_IdentityrefVal:
			return &gnmi.TypedValue{Value: &gnmi.TypedValue_StringVal{StringVal: v.IdentityrefVal.Value}}
		}
		return nil
	}
	if n.Kind == KLeafList {
		arr := &gnmi.ScalarArray{}
		for _, v := range vals {
			e := one(v)
			if e == nil {
				return nil
			}
			arr.Element = append(arr.Element, e)
		}
		return &gnmi.TypedValue{Value: &gnmi.TypedValue_LeaflistVal{LeaflistVal: arr}}
	}
	if len(vals) == 0 {
		return nil
	}
	return one(vals[0])
}

// DecodeJSONAt decodes a JSON / JSON_IETF value addressed by path p (root, container, list entry or leaf).
func DecodeJSONAt(p IPath, raw []byte, ietf bool) (Conf, []string) {
	if len(p) == 0 {
		return DecodeJSONDoc(string(raw), ietf)
	}
	n := p.Node()
	if n == nil {
		return nil, []string{"json at unknown schema path " + p.Canon()}
	}
	var doc any
	dec := json.NewDecoder(strings.NewReader(string(raw)))
	dec.UseNumber()
	if err := dec.Decode(&doc); err != nil {
		return nil, []string{"json: " + err.Error()}
	}
	out := Conf{}
	var an []string
	switch n.Kind {
	case KLeaf:
		d, err := jsonScalarToDenotation(nodeScalarType(n), doc, ietf)
		if err != nil {
			return nil, []string{fmt.Sprintf("json: %s: %v", p.Canon(), err)}
		}
		out[p.Canon()] = d
	case KLeafList:
		arr, ok := doc.([]any)
		if !ok {
			return nil, []string{fmt.Sprintf("json: leaf-list %s is %T", p.Canon(), doc)}
		}
		var el []string
		for _, e := range arr {
			d, err := jsonScalarToDenotation(nodeScalarType(n), e, ietf)
			if err != nil {
				return nil, []string{fmt.Sprintf("json: %s: %v", p.Canon(), err)}
			}
			el = append(el, d)
		}
		out[p.Canon()] = LLDenotation(el)
	default:
		obj, ok := doc.(map[string]any)
		if !ok {
			return nil, []string{fmt.Sprintf("json: value at %s is %T", p.Canon(), doc)}
		}
		if n.Kind == KList && len(p[len(p)-1].Keys) != len(n.Keys) {
			return nil, []string{fmt.Sprintf("json: object addressed to list %s without its keys", p.Canon())}
		}
		if len(obj) == 0 && n.Kind == KContainer && n.Presence {
			out[p.Canon()] = ""
		}
		decodeJSONObject(n, p, obj, ietf, out, &an)
		if n.Kind == KList {
			// key members of the object must agree with the keys of the addressed entry
			for kn, kv := range p[len(p)-1].Keys {
				kp := append(p.Clone(), PE{Name: kn}).Canon()
				if got, ok := out[kp]; ok && got != kv {
					an = append(an, fmt.Sprintf("json: key member %s=%q inside entry %s", kn, got, p.Canon()))
				}
			}
		}
	}
	return out, an
}

// ---------------------------------------------------------------- gNMI service

func (d *GNMIDevice) Capabilities(ctx context.Context, req *gnmi.CapabilityRequest) (*gnmi.CapabilityResponse, error) {
	return &gnmi.CapabilityResponse{SupportedEncodings: d.Encodings, GNMIVersion: "0.8.0"}, nil
}

// DecodeGNMISet decodes a SetRequest into leaf writes and subtree deletes.
func DecodeGNMISet(req *gnmi.SetRequest) *SetRecord {
	rec := &SetRecord{}
	for _, dp := range req.GetDelete() {
		rec.Deletes = append(rec.Deletes, FromGNMIPath(req.GetPrefix(), dp))
	}
	if len(req.GetReplace()) > 0 {
		rec.Anomalies = append(rec.Anomalies, "SetRequest carries replace operations")
	}
	for _, u := range req.GetUpdate() {
		p := FromGNMIPath(req.GetPrefix(), u.GetPath())
		if u.GetVal() == nil {
			rec.Anomalies = append(rec.Anomalies, fmt.Sprintf("update for %s without a value", p.Canon()))
			continue
		}
		switch v := u.GetVal().GetValue().(type) {
		case *gnmi.TypedValue_JsonVal, *gnmi.TypedValue_JsonIetfVal:
			var raw []byte
			ietf := false
			if jv, ok := v.(*gnmi.TypedValue_JsonVal); ok {
				raw = jv.JsonVal
			} else {
				raw, ietf = v.(*gnmi.TypedValue_JsonIetfVal).JsonIetfVal, true
			}
			c, an := DecodeJSONAt(p, raw, ietf)
			rec.Anomalies = append(rec.Anomalies, an...)
			for _, k := range c.SortedKeys() {
				rec.Updates = append(rec.Updates, LeafKV{Path: MustCanon(k), Den: c[k]})
			}
		default:
			n := p.Node()
			if n == nil {
				rec.Anomalies = append(rec.Anomalies, fmt.Sprintf("update for unknown schema path %s", p.Canon()))
				continue
			}
			den, err := GNMIDenote(n, u.GetVal())
			if err != nil {
				rec.Anomalies = append(rec.Anomalies, fmt.Sprintf("undecodable value at %s: %v", p.Canon(), err))
				continue
			}
			lp := Root
			for _, e := range p {
				lp = lp.Child(e.Name)
				if lp == nil {
					break
				}
				if lp.Kind == KList && len(e.Keys) != len(lp.Keys) {
					rec.Anomalies = append(rec.Anomalies, fmt.Sprintf("update path %s: list %s not fully keyed", p.Canon(), lp.Name))
				}
				if lp.Kind != KList && len(e.Keys) > 0 {
					rec.Anomalies = append(rec.Anomalies, fmt.Sprintf("update path %s: keys on non-list %s", p.Canon(), lp.Name))
				}
			}
			rec.Updates = append(rec.Updates, LeafKV{Path: p, Den: den})
		}
	}
	return rec
}

func (d *GNMIDevice) Set(ctx context.Context, req *gnmi.SetRequest) (*gnmi.SetResponse, error) {
	rec := DecodeGNMISet(req)
	d.mu.Lock()
	defer d.mu.Unlock()
	d.calls++
	if d.FailAt != 0 && d.calls == d.FailAt {
		rec.Failed = true
		d.Log = append(d.Log, rec)
		return nil, status.Error(codes.InvalidArgument, "verif: injected device failure")
	}
	ApplyRecord(d.Config, rec)
	d.Log = append(d.Log, rec)
	if d.NotifyOnSet {
		// an on-change subscription reports what a Set changed
		upd := Conf{}
		for _, u := range rec.Updates {
			if !u.Path.IsKeyLeaf() {
				upd[u.Path.Canon()] = u.Den
			}
		}
		d.notifyLocked(rec.Deletes, upd)
	}
	rsp := &gnmi.SetResponse{Timestamp: time.Now().UnixNano()}
	for _, dp := range req.GetDelete() {
		rsp.Response = append(rsp.Response, &gnmi.UpdateResult{Path: dp, Op: gnmi.UpdateResult_DELETE})
	}
	for _, u := range req.GetUpdate() {
		rsp.Response = append(rsp.Response, &gnmi.UpdateResult{Path: u.GetPath(), Op: gnmi.UpdateResult_UPDATE})
	}
	return rsp, nil
}

// encodeLeaf renders one leaf of the device configuration in the requested encoding (nil: not representable).
func encodeLeaf(p IPath, den string, enc gnmi.Encoding) *gnmi.Update {
	n := p.Node()
	if n == nil {
		return nil
	}
	switch enc {
	case gnmi.Encoding_JSON, gnmi.Encoding_JSON_IETF:
		ietf := enc == gnmi.Encoding_JSON_IETF
		var b []byte
		if n.Kind == KContainer {
			b = []byte("{}")
		} else if n.Kind == KLeafList {
			arr := []any{}
			for _, el := range ParseLL(den) {
				arr = append(arr, jsonScalarT(nodeScalarType(n), el, ietf))
			}
			b, _ = json.Marshal(arr)
		} else {
			b, _ = json.Marshal(jsonScalar(n, den, ietf))
		}
		if ietf {
			return &gnmi.Update{Path: p.GNMI(), Val: &gnmi.TypedValue{Value: &gnmi.TypedValue_JsonIetfVal{JsonIetfVal: b}}}
		}
		return &gnmi.Update{Path: p.GNMI(), Val: &gnmi.TypedValue{Value: &gnmi.TypedValue_JsonVal{JsonVal: b}}}
	case gnmi.Encoding_ASCII:
		if n.Kind != KLeaf {
			return nil
		}
		return &gnmi.Update{Path: p.GNMI(), Val: &gnmi.TypedValue{Value: &gnmi.TypedValue_AsciiVal{AsciiVal: den}}}
	default:
		if n.Kind == KContainer {
			return nil
		}
		var vals []string
		if n.Kind == KLeafList {
			vals = ParseLL(den)
		} else {
			vals = []string{den}
		}
		tv := NativeGNMI(n, vals)
		if tv == nil {
			return nil
		}
		return &gnmi.Update{Path: p.GNMI(), Val: tv}
	}
}

// Representable reports whether the device can report the leaf in the encoding.
func GNMIRepresentable(p IPath, den string, enc gnmi.Encoding) bool {
	return encodeLeaf(p, den, enc) != nil
}

// notificationsFor renders the part of c below the given paths.
func (d *GNMIDevice) notificationsFor(c Conf, under []IPath, enc gnmi.Encoding, configOnly bool) []*gnmi.Notification {
	sel := Conf{}
	for _, k := range c.SortedKeys() {
		p := MustCanon(k)
		if p.IsKeyLeaf() {
			continue // reported through the keys of the entry's path
		}
		if n := p.Node(); n == nil || (configOnly && n.State) {
			continue
		}
		for _, u := range under {
			if u.Covers(p) {
				sel[k] = c[k]
				break
			}
		}
	}
	var upds []*gnmi.Update
	if d.Blobs && (enc == gnmi.Encoding_JSON || enc == gnmi.Encoding_JSON_IETF) {
		// one JSON object per top-level container
		tops := map[string]Conf{}
		for k, v := range sel {
			p := MustCanon(k)
			if len(p) < 2 {
				if u := encodeLeaf(p, v, enc); u != nil {
					upds = append(upds, u)
				}
				continue
			}
			if tops[p[0].Name] == nil {
				tops[p[0].Name] = Conf{}
			}
			tops[p[0].Name][k] = v
		}
		names := make([]string, 0, len(tops))
		for t := range tops {
			names = append(names, t)
		}
		sort.Strings(names)
		for _, t := range names {
			ietf := enc == gnmi.Encoding_JSON_IETF
			doc, err := jsonDoc(WithImplied(tops[t]), ietf)
			if err != nil {
				continue
			}
			var inner any
			for _, v := range doc {
				inner = v
			}
			b, _ := json.Marshal(inner)
			tp := IPath{PE{Name: t}}
			if ietf {
				upds = append(upds, &gnmi.Update{Path: tp.GNMI(), Val: &gnmi.TypedValue{Value: &gnmi.TypedValue_JsonIetfVal{JsonIetfVal: b}}})
			} else {
				upds = append(upds, &gnmi.Update{Path: tp.GNMI(), Val: &gnmi.TypedValue{Value: &gnmi.TypedValue_JsonVal{JsonVal: b}}})
			}
		}
	} else {
		for _, k := range sel.SortedKeys() {
			if u := encodeLeaf(MustCanon(k), sel[k], enc); u != nil {
				upds = append(upds, u)
			}
		}
	}
	var res []*gnmi.Notification
	chunk := d.Chunk
	if chunk < 0 {
		// one notification per parent node: all its updates are siblings (with Prefix: the parent is the prefix)
		var order []string
		groups := map[string][]*gnmi.Update{}
		for _, u := range upds {
			el := u.GetPath().GetElem()
			k := (&gnmi.Path{Elem: el[:len(el)-1]}).String()
			if _, ok := groups[k]; !ok {
				order = append(order, k)
			}
			groups[k] = append(groups[k], u)
		}
		for _, k := range order {
			res = append(res, &gnmi.Notification{Timestamp: time.Now().UnixNano(), Update: groups[k]})
		}
		return res
	}
	if chunk == 0 {
		chunk = len(upds) + 1
	}
	for len(upds) > 0 {
		n := chunk
		if n > len(upds) {
			n = len(upds)
		}
		res = append(res, &gnmi.Notification{Timestamp: time.Now().UnixNano(), Update: upds[:n]})
		upds = upds[n:]
	}
	return res
}

func (d *GNMIDevice) Get(ctx context.Context, req *gnmi.GetRequest) (*gnmi.GetResponse, error) {
	d.mu.Lock()
	defer d.mu.Unlock()
	var under []IPath
	for _, p := range req.GetPath() {
		under = append(under, FromGNMIPath(req.GetPrefix(), p))
	}
	if len(under) == 0 {
		under = []IPath{{}}
	}
	ns := d.notificationsFor(d.Config, under, req.GetEncoding(), req.GetType() == gnmi.GetRequest_CONFIG)
	d.getCalls++
	d.getNotifs += len(ns)
	if d.Prefix {
		for i := range ns {
			ns[i] = withPrefix(ns[i])
		}
	}
	return &gnmi.GetResponse{Notification: ns}, nil
}

func (d *GNMIDevice) Subscribe(stream gnmi.GNMI_SubscribeServer) error {
	req, err := stream.Recv()
	if err != nil {
		return err
	}
	sl := req.GetSubscribe()
	if sl == nil {
		return status.Error(codes.InvalidArgument, "first message must carry a subscription list")
	}
	var under []IPath
	for _, s := range sl.GetSubscription() {
		under = append(under, FromGNMIPath(sl.GetPrefix(), s.GetPath()))
	}
	if len(under) == 0 {
		under = []IPath{{}}
	}
	sub := &gnmiSub{ch: make(chan *gnmi.Notification, 4096), enc: sl.GetEncoding(), under: under, done: make(chan struct{})}
	// the initial state and the registration happen atomically with respect to Apply
	d.mu.Lock()
	initial := d.notificationsFor(d.Config, under, sl.GetEncoding(), false)
	d.queued += len(initial)
	if sl.GetMode() == gnmi.SubscriptionList_STREAM {
		d.subs[sub] = struct{}{}
	}
	d.mu.Unlock()
	defer func() {
		d.mu.Lock()
		delete(d.subs, sub)
		d.mu.Unlock()
	}()
	send := func(n *gnmi.Notification) error {
		if d.Prefix {
			n = withPrefix(n)
		}
		err := stream.Send(&gnmi.SubscribeResponse{Response: &gnmi.SubscribeResponse_Update{Update: n}})
		d.mu.Lock()
		d.sent++
		d.mu.Unlock()
		return err
	}
	for _, n := range initial {
		if err := send(n); err != nil {
			return err
		}
	}
	if err := stream.Send(&gnmi.SubscribeResponse{Response: &gnmi.SubscribeResponse_SyncResponse{SyncResponse: true}}); err != nil {
		return err
	}
	if sl.GetMode() != gnmi.SubscriptionList_STREAM {
		return nil
	}
	for {
		select {
		case <-stream.Context().Done():
			return nil
		case n := <-sub.ch:
			if err := send(n); err != nil {
				return err
			}
		}
	}
}

// withPrefix moves the longest common prefix of all paths of the notification into its prefix field.
func withPrefix(n *gnmi.Notification) *gnmi.Notification {
	var all []*gnmi.Path
	for _, u := range n.GetUpdate() {
		all = append(all, u.GetPath())
	}
	all = append(all, n.GetDelete()...)
	if len(all) == 0 {
		return n
	}
	same := func(a, b *gnmi.PathElem) bool {
		if a.GetName() != b.GetName() || len(a.GetKey()) != len(b.GetKey()) {
			return false
		}
		for k, v := range a.GetKey() {
			if bv, ok := b.GetKey()[k]; !ok || bv != v {
				return false
			}
		}
		return true
	}
	l := len(all[0].GetElem())
	for _, p := range all[1:] {
		if len(p.GetElem()) < l {
			l = len(p.GetElem())
		}
		for i := 0; i < l; i++ {
			if !same(all[0].GetElem()[i], p.GetElem()[i]) {
				l = i
				break
			}
		}
	}
	// keep at least one relative element on every path
	for _, p := range all {
		if len(p.GetElem())-1 < l {
			l = len(p.GetElem()) - 1
		}
	}
	if l <= 0 {
		return n
	}
	r := &gnmi.Notification{Timestamp: n.GetTimestamp(), Prefix: &gnmi.Path{Elem: all[0].GetElem()[:l]}}
	for _, u := range n.GetUpdate() {
		r.Update = append(r.Update, &gnmi.Update{Path: &gnmi.Path{Elem: u.GetPath().GetElem()[l:]}, Val: u.GetVal()})
	}
	for _, dp := range n.GetDelete() {
		r.Delete = append(r.Delete, &gnmi.Path{Elem: dp.GetElem()[l:]})
	}
	return r
}

// Apply changes the device configuration (deletes, then updates) and reports the change on every
// STREAM subscription the way an on-change subscription does. It returns the number of notifications queued.
func (d *GNMIDevice) Apply(deletes []IPath, updates Conf) int {
	d.mu.Lock()
	defer d.mu.Unlock()
	for _, dp := range deletes {
		d.Config.ApplyDelete(dp)
	}
	for _, k := range updates.SortedKeys() {
		d.Config.ApplyUpdate(MustCanon(k), updates[k])
	}
	return d.notifyLocked(deletes, updates)
}

func (d *GNMIDevice) notifyLocked(deletes []IPath, updates Conf) int {
	n := 0
	for s := range d.subs {
		var ns []*gnmi.Notification
		if len(updates) > 0 {
			ns = d.notificationsFor(updates, s.under, s.enc, false)
		}
		var dels []*gnmi.Path
		for _, dp := range deletes {
			for _, u := range s.under {
				if u.Covers(dp) || dp.Covers(u) {
					dels = append(dels, dp.GNMI())
					break
				}
			}
		}
		if len(dels) > 0 {
			if len(ns) == 0 {
				ns = []*gnmi.Notification{{Timestamp: time.Now().UnixNano()}}
			}
			ns[0].Delete = append(ns[0].Delete, dels...)
		}
		for _, x := range ns {
			s.ch <- x
			d.queued++
			n++
		}
	}
	return n
}

// GNMITee is a southbound target made of the recording device and the REAL gnmiTarget of data-server talking to
// an in-process gNMI device: every change is first recorded (proto rendering, harness decoders), then pushed through
// gnmiTarget.Set in the configured encoding; the gNMI device applies what arrives with gNMI semantics.
type GNMITee struct {
	Loop bool
	Dev  *Device
	Real target.Target
	GDev *GNMIDevice
	mu   sync.Mutex
	Errs []string
}

func (t *GNMITee) Get(ctx context.Context, req *sdcpb.GetDataRequest) (*sdcpb.GetDataResponse, error) {
	return t.Real.Get(ctx, req)
}

func (t *GNMITee) Set(ctx context.Context, source target.TargetSource) (*sdcpb.SetDataResponse, error) {
	rsp, err := t.Dev.Set(ctx, source)
	if err != nil {
		return rsp, err
	}
	if _, err := t.Real.Set(ctx, source); err != nil {
		t.mu.Lock()
		t.Errs = append(t.Errs, err.Error())
		t.mu.Unlock()
	}
	return rsp, nil
}

func (t *GNMITee) TakeErrs() []string {
	t.mu.Lock()
	defer t.mu.Unlock()
	e := t.Errs
	t.Errs = nil
	return e
}

// Sync: with Loop set the real gnmiTarget runs its sync against the gNMI device (closed loop), otherwise nothing syncs.
func (t *GNMITee) Sync(ctx context.Context, c *config.Sync, ch chan *target.SyncUpdate) {
	if t.Loop {
		t.Real.Sync(ctx, c, ch)
	}
}
func (t *GNMITee) Status() *target.TargetStatus { return t.Real.Status() }
func (t *GNMITee) Close() error                 { return t.Real.Close() }

// GNMIWrap returns a HistEnvOpts.WrapTarget that puts the real gnmiTarget (encoding enc) and an in-process gNMI
// device next to the recording device; *out receives the tee. The caller stops (*out).GDev when the case ends.
func GNMIWrap(ctx context.Context, env *Env, enc string, out **GNMITee) func(dev *Device) target.Target {
	return func(dev *Device) target.Target {
		gdev := NewGNMIDevice(dev.Snapshot())
		scb := schemaClient.NewSchemaClientBound(SchemaRef(), env.SchemaClient)
		real, err := target.New(ctx, "gnmi-tee", &config.SBI{Type: "gnmi", Address: "bufnet", Port: 1, GnmiOptions: &config.SBIGnmiOptions{Encoding: enc}}, scb, gdev.DialOpts()...)
		if err != nil {
			fmt.Fprintf(os.Stderr, "HARNESS-ERROR gnmi target over bufconn: %v\n", err)
			os.Exit(2)
		}
		*out = &GNMITee{Dev: dev, Real: real, GDev: gdev}
		return *out
	}
}
