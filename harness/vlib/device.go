package vlib

import (
	"context"
	"fmt"
	"sort"
	"sync"
	"time"

	"github.com/sdcio/data-server/pkg/config"
	"github.com/sdcio/data-server/pkg/datastore/target"
	sdcpb "github.com/sdcio/sdc-protos/sdcpb"
)

// Conf is a device / store configuration: canonical leaf path -> denotation.
type Conf map[string]string

func (c Conf) Clone() Conf {
	r := make(Conf, len(c))
	for k, v := range c {
		r[k] = v
	}
	return r
}

func (c Conf) SortedKeys() []string {
	ks := make([]string, 0, len(c))
	for k := range c {
		ks = append(ks, k)
	}
	sort.Strings(ks)
	return ks
}

// Diff returns a readable difference "path: a=<..> b=<..>" (empty if equal).
func (c Conf) Diff(o Conf) []string {
	var d []string
	for _, k := range c.SortedKeys() {
		if ov, ok := o[k]; !ok {
			d = append(d, fmt.Sprintf("%s: %q vs <absent>", k, c[k]))
		} else if ov != c[k] {
			d = append(d, fmt.Sprintf("%s: %q vs %q", k, c[k], ov))
		}
	}
	for _, k := range o.SortedKeys() {
		if _, ok := c[k]; !ok {
			d = append(d, fmt.Sprintf("%s: <absent> vs %q", k, o[k]))
		}
	}
	return d
}

// ApplyDelete removes everything at or below p (missing keys = wildcard).
func (c Conf) ApplyDelete(p IPath) int {
	n := 0
	for k := range c {
		q, err := ParseCanon(k)
		if err != nil {
			continue
		}
		if p.Covers(q) {
			delete(c, k)
			n++
		}
	}
	return n
}

// ApplyUpdate sets a leaf and the key leaves implied by its path.
func (c Conf) ApplyUpdate(p IPath, den string) {
	for _, kl := range p.ImpliedKeyLeaves() {
		c[kl.Path.Canon()] = kl.Value
	}
	c[p.Canon()] = den
}

// LeafKV is one decoded update.
type LeafKV struct {
	Path IPath  `json:"path"`
	Den  string `json:"den"`
}

// SetRecord is what the device saw in one Set call.
type SetRecord struct {
	Updates   []LeafKV `json:"updates"`
	Deletes   []IPath  `json:"deletes"`
	Anomalies []string `json:"anomalies,omitempty"`
	Failed    bool     `json:"failed,omitempty"`
	// raw payloads
	RawUpdates []*sdcpb.Update     `json:"-"`
	RawDeletes []*sdcpb.Path       `json:"-"`
	Source     target.TargetSource `json:"-"`
}

// Device is the recording southbound device.
type Device struct {
	mu     sync.Mutex
	Config Conf
	Log    []*SetRecord
	// FailAt: fail the Set call with this 1-based ordinal (counted over the
	// device's lifetime); 0 = never.
	FailAt int
	calls  int
	// PanicOnFail: the injected failure is a crash (restart model) instead of an error
	PanicOnFail bool
	failFired   bool
	// EnforceChoices: the device behaves like a YANG server - writing a node of one case removes the nodes of the
	// other cases of the choice (off by default: C08 observes what data-server itself deletes)
	EnforceChoices bool
	// OnSet is invoked (under no lock) with the source before the device
	// applies the change; used by C09/C10 to render the other encodings.
	OnSet func(ctx context.Context, src target.TargetSource, rec *SetRecord)
	// sync script replayed by Sync()
	SyncScript []*target.SyncUpdate
	SyncDone   chan struct{}
	// SyncFeed, if non-nil, replaces SyncScript: the harness feeds messages one by one
	SyncFeed chan *target.SyncUpdate
}

// Drop removes everything below p from the device without a Set call (somebody changed the device behind the server's back).
func (d *Device) Drop(p IPath) int {
	d.mu.Lock()
	defer d.mu.Unlock()
	return d.Config.ApplyDelete(p)
}

func NewDevice(initial Conf) *Device {
	if initial == nil {
		initial = Conf{}
	}
	return &Device{Config: initial.Clone(), SyncDone: make(chan struct{})}
}

var ErrDeviceInjected = fmt.Errorf("verif: injected device failure")

func (d *Device) Get(ctx context.Context, req *sdcpb.GetDataRequest) (*sdcpb.GetDataResponse, error) {
	return &sdcpb.GetDataResponse{}, nil
}

// DecodeProtoChange decodes proto updates / deletes with the harness decoders.
func DecodeProtoChange(upds []*sdcpb.Update, dels []*sdcpb.Path) (*SetRecord, error) {
	rec := &SetRecord{RawUpdates: upds, RawDeletes: dels}
	for _, dp := range dels {
		rec.Deletes = append(rec.Deletes, FromSdcpb(dp))
	}
	for _, u := range upds {
		p := FromSdcpb(u.GetPath())
		n := p.Node()
		if n == nil {
			rec.Anomalies = append(rec.Anomalies, fmt.Sprintf("update for unknown schema path %s", p.Canon()))
			continue
		}
		den, err := DenoteTV(n, u.GetValue())
		if err != nil {
			rec.Anomalies = append(rec.Anomalies, fmt.Sprintf("undecodable value at %s: %v", p.Canon(), err))
			continue
		}
		// list entries on the path must be fully keyed
		lp := Root
		for _, e := range p {
			lp = lp.Child(e.Name)
			if lp == nil {
				break
			}
			if lp.Kind == KList && len(e.Keys) != len(lp.Keys) {
				rec.Anomalies = append(rec.Anomalies, fmt.Sprintf("update path %s: list %s not fully keyed", p.Canon(), lp.Name))
			}
			if lp.Kind != KList && len(e.Keys) > 0 {
				rec.Anomalies = append(rec.Anomalies, fmt.Sprintf("update path %s: keys on non-list %s", p.Canon(), lp.Name))
			}
		}
		if p.IsKeyLeaf() {
			if kv := p[len(p)-2].Keys[p[len(p)-1].Name]; kv != den {
				rec.Anomalies = append(rec.Anomalies, fmt.Sprintf("key leaf %s carries %q, entry key is %q", p.Canon(), den, kv))
			}
		}
		rec.Updates = append(rec.Updates, LeafKV{Path: p, Den: den})
	}
	return rec, nil
}

func (d *Device) Set(ctx context.Context, source target.TargetSource) (*sdcpb.SetDataResponse, error) {
	d.mu.Lock()
	d.calls++
	fail := d.FailAt != 0 && d.calls == d.FailAt
	d.mu.Unlock()

	upds, err := source.ToProtoUpdates(ctx, true)
	if err != nil {
		return nil, err
	}
	dels, err := source.ToProtoDeletes(ctx)
	if err != nil {
		return nil, err
	}
	rec, _ := DecodeProtoChange(upds, dels)
	rec.Source = source
	if d.OnSet != nil {
		d.OnSet(ctx, source, rec)
	}
	d.mu.Lock()
	defer d.mu.Unlock()
	if fail {
		rec.Failed = true
		d.failFired = true
		d.Log = append(d.Log, rec)
		if d.PanicOnFail {
			d.PanicOnFail = false
			d.mu.Unlock()
			defer d.mu.Lock()
			panic(CrashSentinel{At: "target.Set"})
		}
		return nil, ErrDeviceInjected
	}
	ApplyRecord(d.Config, rec)
	if d.EnforceChoices {
		var written []IPath
		for _, u := range rec.Updates {
			written = append(written, u.Path)
		}
		EnforceChoices(d.Config, written)
	}
	d.Log = append(d.Log, rec)
	return &sdcpb.SetDataResponse{Timestamp: time.Now().UnixNano()}, nil
}

// ApplyRecord applies deletes then updates (gNMI Set semantics).
func ApplyRecord(c Conf, rec *SetRecord) {
	for _, dp := range rec.Deletes {
		c.ApplyDelete(dp)
	}
	for _, u := range rec.Updates {
		c.ApplyUpdate(u.Path, u.Den)
	}
}

// FailFired reports (and clears) whether the injected Set failure happened.
func (d *Device) FailFired() bool {
	d.mu.Lock()
	defer d.mu.Unlock()
	f := d.failFired
	d.failFired = false
	return f
}

func (d *Device) Snapshot() Conf {
	d.mu.Lock()
	defer d.mu.Unlock()
	return d.Config.Clone()
}

func (d *Device) Calls() int {
	d.mu.Lock()
	defer d.mu.Unlock()
	return len(d.Log)
}

func (d *Device) LastRecord() *SetRecord {
	d.mu.Lock()
	defer d.mu.Unlock()
	if len(d.Log) == 0 {
		return nil
	}
	return d.Log[len(d.Log)-1]
}

func (d *Device) Sync(ctx context.Context, _ *config.Sync, syncCh chan *target.SyncUpdate) {
	if d.SyncFeed != nil {
		for {
			select {
			case <-ctx.Done():
				return
			case su, ok := <-d.SyncFeed:
				if !ok {
					return
				}
				select {
				case <-ctx.Done():
					return
				case syncCh <- su:
				}
			}
		}
	}
	for _, su := range d.SyncScript {
		select {
		case <-ctx.Done():
			return
		case syncCh <- su:
		}
	}
	close(d.SyncDone)
}

func (d *Device) Status() *target.TargetStatus {
	return &target.TargetStatus{Status: target.TargetStatusConnected}
}

func (d *Device) Close() error { return nil }

var _ target.Target = (*Device)(nil)
