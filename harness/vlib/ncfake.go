package vlib

import (
	"context"
	"fmt"
	"strings"
	"sync"

	"github.com/beevik/etree"
	"github.com/sdcio/data-server/pkg/config"
	"github.com/sdcio/data-server/pkg/datastore/target"
	"github.com/sdcio/data-server/pkg/datastore/target/netconf/types"
	sdcpb "github.com/sdcio/sdc-protos/sdcpb"
)

// NCCall is one call the NETCONF target made to its driver.
type NCCall struct {
	Op     string `json:"op"`               // EditConfig | Commit | Discard | Close | GetConfig | Get | Lock | Unlock | Validate
	Target string `json:"target,omitempty"` // datastore argument
	Doc    string `json:"doc,omitempty"`
	Result string `json:"result"` // ok | warn | err | eof | dead
	// device model right after the call
	Pending int `json:"pending"`
}

// NCFault tells the fake device how the next call of an operation behaves.
//
//	""/"ok"  success
//	"warn"   success, the reply carries an rpc-error of severity warning (EditConfig)
//	"err"    the device answers with an rpc-error: the driver returns an error; for
//	         EditConfig the candidate may already hold a part of the edit
//	"eof"    the connection dies: error containing EOF, IsAlive() turns false
type NCFault struct {
	Edit, Commit, Discard string
}

// NCFake is a netconf.Driver over a modelled device with a shared candidate.
type NCFake struct {
	mu      sync.Mutex
	Alive   bool
	Calls   []NCCall
	Fault   NCFault
	Pending []string // uncommitted edits in the candidate
	Running []string // edits that reached the running datastore, in order
	// Commits records the candidate content each successful commit made effective
	Commits [][]string
	// Config, if set, is the configuration get-config reports (sync checks); GetConfigs counts the answers
	Config     Conf
	GetConfigs int
	// OnCall, if set, runs at the start of every driver call with the call's 0-based index (no lock held)
	OnCall func(i int)
	ncalls int
	// ApplyEdits: the fake is a device model - an edit-config that reaches the running datastore (directly or by a
	// commit) is applied to Config with RFC 6241 semantics (merge; operation delete / remove / replace); HonorNS:
	// the documents are decoded with namespace scoping. EditAnomalies collects what the decoder could not place.
	ApplyEdits    bool
	HonorNS       bool
	EditAnomalies []string
	Edits         int // documents applied to Config
}

// applyDocLocked applies one edit-config document to the device configuration.
func (f *NCFake) applyDocLocked(doc string) {
	if strings.HasPrefix(doc, "PARTIAL:") {
		return
	}
	if f.Config == nil {
		f.Config = Conf{}
	}
	ch := DecodeXMLDoc(doc, f.HonorNS)
	f.EditAnomalies = append(f.EditAnomalies, ch.Anomalies...)
	for _, r := range ch.Replaces {
		f.Config.ApplyDelete(r)
	}
	for _, d := range ch.Deletes {
		f.Config.ApplyDelete(d)
	}
	for _, k := range ch.Updates.SortedKeys() {
		f.Config.ApplyUpdate(MustCanon(k), ch.Updates[k])
	}
	f.Edits++
}

// TakeEditAnomalies returns and clears the decoder complaints about applied documents.
func (f *NCFake) TakeEditAnomalies() ([]string, int) {
	f.mu.Lock()
	defer f.mu.Unlock()
	a := f.EditAnomalies
	f.EditAnomalies = nil
	return a, f.Edits
}

func NewNCFake() *NCFake { return &NCFake{Alive: true} }

var errNCDead = fmt.Errorf("verif: transport closed: EOF")

func okReply(warn bool, noMsg ...bool) *types.NetconfResponse {
	d := etree.NewDocument()
	r := d.CreateElement("rpc-reply")
	if warn {
		e := r.CreateElement("rpc-error")
		e.CreateElement("error-type").SetText("application")
		e.CreateElement("error-severity").SetText("warning")
		if len(noMsg) > 0 && noMsg[0] {
			// error-message is optional (RFC 6241 4.3)
			e.CreateElement("error-path").SetText("/plain")
		} else {
			e.CreateElement("error-message").SetText("verif: statement has no effect")
		}
	}
	r.CreateElement("ok")
	return types.NewNetconfResponse(d)
}

func (f *NCFake) onCall() {
	f.mu.Lock()
	i, h := f.ncalls, f.OnCall
	f.ncalls++
	f.mu.Unlock()
	if h != nil {
		h(i)
	}
}

func (f *NCFake) rec(c NCCall) {
	c.Pending = len(f.Pending)
	f.Calls = append(f.Calls, c)
}

func (f *NCFake) CallCount() int { f.mu.Lock(); defer f.mu.Unlock(); return len(f.Calls) }
func (f *NCFake) CallsFrom(i int) []NCCall {
	f.mu.Lock()
	defer f.mu.Unlock()
	return append([]NCCall{}, f.Calls[i:]...)
}

func (f *NCFake) take(p *string) string {
	k := *p
	*p = ""
	if k == "" {
		k = "ok"
	}
	return k
}

func (f *NCFake) EditConfig(tgt string, doc string) (*types.NetconfResponse, error) {
	f.onCall()
	f.mu.Lock()
	defer f.mu.Unlock()
	if !f.Alive {
		f.rec(NCCall{Op: "EditConfig", Target: tgt, Doc: doc, Result: "dead"})
		return nil, errNCDead
	}
	k := f.take(&f.Fault.Edit)
	switch k {
	case "ok", "warn", "warn-nomsg":
		if tgt == "candidate" {
			f.Pending = append(f.Pending, doc)
		} else {
			f.Running = append(f.Running, doc)
			if f.ApplyEdits {
				f.applyDocLocked(doc)
			}
		}
		noMsg := k == "warn-nomsg"
		if noMsg {
			k = "warn"
		}
		f.rec(NCCall{Op: "EditConfig", Target: tgt, Doc: doc, Result: k})
		return okReply(k == "warn", noMsg), nil
	case "eof":
		if tgt == "candidate" {
			f.Pending = append(f.Pending, "PARTIAL:"+doc)
		}
		f.Alive = false
		f.rec(NCCall{Op: "EditConfig", Target: tgt, Doc: doc, Result: k})
		return nil, errNCDead
	default:
		if tgt == "candidate" {
			f.Pending = append(f.Pending, "PARTIAL:"+doc)
		}
		f.rec(NCCall{Op: "EditConfig", Target: tgt, Doc: doc, Result: "err"})
		if k == "timeout" {
			// the session is still alive, the operation ran into the driver's timeout (scrapligo's wording)
			return nil, fmt.Errorf("errTimeoutError: channel timeout sending input to device")
		}
		return nil, fmt.Errorf("operation failed: <rpc-error><error-severity>error</error-severity><error-message>verif: bad element</error-message></rpc-error>")
	}
}

func (f *NCFake) Commit() error {
	f.onCall()
	f.mu.Lock()
	defer f.mu.Unlock()
	if !f.Alive {
		f.rec(NCCall{Op: "Commit", Result: "dead"})
		return errNCDead
	}
	switch k := f.take(&f.Fault.Commit); k {
	case "ok":
		f.Commits = append(f.Commits, append([]string{}, f.Pending...))
		f.Running = append(f.Running, f.Pending...)
		if f.ApplyEdits {
			for _, doc := range f.Pending {
				f.applyDocLocked(doc)
			}
		}
		f.Pending = nil
		f.rec(NCCall{Op: "Commit", Result: "ok"})
		return nil
	case "eof":
		f.Alive = false
		f.rec(NCCall{Op: "Commit", Result: "eof"})
		return errNCDead
	default:
		f.rec(NCCall{Op: "Commit", Result: "err"})
		if k == "timeout" {
			return fmt.Errorf("errTimeoutError: channel timeout reading from device")
		}
		if k == "conn" {
			return fmt.Errorf("errConnectionError: encountered error output during in channel write, error: resource temporarily unavailable")
		}
		return fmt.Errorf("operation failed: commit refused by the device")
	}
}

func (f *NCFake) Discard() error {
	f.onCall()
	f.mu.Lock()
	defer f.mu.Unlock()
	if !f.Alive {
		f.rec(NCCall{Op: "Discard", Result: "dead"})
		return errNCDead
	}
	switch k := f.take(&f.Fault.Discard); k {
	case "ok":
		f.Pending = nil
		f.rec(NCCall{Op: "Discard", Result: "ok"})
		return nil
	case "eof":
		f.Alive = false
		f.rec(NCCall{Op: "Discard", Result: "eof"})
		return errNCDead
	default:
		f.rec(NCCall{Op: "Discard", Result: "err"})
		return fmt.Errorf("operation failed: discard refused by the device")
	}
}

func (f *NCFake) other(op, tgt string) (*types.NetconfResponse, error) {
	f.mu.Lock()
	defer f.mu.Unlock()
	if !f.Alive {
		f.rec(NCCall{Op: op, Target: tgt, Result: "dead"})
		return nil, errNCDead
	}
	f.rec(NCCall{Op: op, Target: tgt, Result: "ok"})
	return okReply(false), nil
}

func (f *NCFake) Get(filter string) (*types.NetconfResponse, error) { return f.other("Get", "") }
func (f *NCFake) GetConfig(source string, filter string) (*types.NetconfResponse, error) {
	f.mu.Lock()
	cfg := f.Config
	f.mu.Unlock()
	if cfg == nil {
		return f.other("GetConfig", source)
	}
	f.mu.Lock()
	defer f.mu.Unlock()
	if !f.Alive {
		f.rec(NCCall{Op: "GetConfig", Target: source, Result: "dead"})
		return nil, errNCDead
	}
	f.rec(NCCall{Op: "GetConfig", Target: source, Doc: filter, Result: "ok"})
	f.GetConfigs++
	return types.NewNetconfResponse(ConfToXMLData(f.Config, filter)), nil
}

// SetConfig installs / changes the configuration the device reports through get-config.
func (f *NCFake) SetConfig(deletes []IPath, updates Conf) {
	f.mu.Lock()
	defer f.mu.Unlock()
	if f.Config == nil {
		f.Config = Conf{}
	}
	for _, dp := range deletes {
		f.Config.ApplyDelete(dp)
	}
	for _, k := range updates.SortedKeys() {
		f.Config.ApplyUpdate(MustCanon(k), updates[k])
	}
}

func (f *NCFake) ConfigSnapshot() (Conf, int) {
	f.mu.Lock()
	defer f.mu.Unlock()
	return f.Config.Clone(), f.GetConfigs
}

// ConfToXMLData renders the configuration leaves (state nodes excluded) as the <data> element of a
// get-config reply: every element in the namespace of its schema node (xmlns where it changes), list
// entries with their keys first in key-statement order, one element per leaf-list entry, empty element for
// a presence container. A subtree filter restricts the answer to the top-level elements it names.
func ConfToXMLData(c Conf, filter string) *etree.Document {
	doc := etree.NewDocument()
	data := doc.CreateElement("data")
	want := map[string]bool{}
	if strings.TrimSpace(filter) != "" {
		fd := etree.NewDocument()
		if err := fd.ReadFromString(filter); err == nil {
			for _, e := range fd.ChildElements() {
				want[e.Tag] = true
			}
		}
	}
	type ent struct {
		el   *etree.Element
		node *Node
	}
	find := func(parent *etree.Element, pn *Node, pe PE) (*etree.Element, *Node) {
		n := pn.Child(pe.Name)
		if n == nil {
			return nil, nil
		}
		for _, ce := range parent.ChildElements() {
			if ce.Tag != pe.Name {
				continue
			}
			if n.Kind != KList {
				return ce, n
			}
			match := true
			for _, kn := range n.Keys {
				ke := ce.SelectElement(kn)
				if ke == nil || ke.Text() != pe.Keys[kn] {
					match = false
				}
			}
			if match {
				return ce, n
			}
		}
		ce := parent.CreateElement(pe.Name)
		if n.NS != pn.NS || pn == Root {
			ce.CreateAttr("xmlns", n.NS)
		}
		if n.Kind == KList {
			for _, kn := range n.Keys {
				ce.CreateElement(kn).SetText(pe.Keys[kn])
			}
		}
		return ce, n
	}
	for _, k := range c.SortedKeys() {
		p := MustCanon(k)
		n := p.Node()
		if n == nil || n.State || p.IsKeyLeaf() || len(p) == 0 {
			continue
		}
		if len(want) > 0 && !want[p[0].Name] {
			continue
		}
		cur, cn := data, Root
		ok := true
		for _, pe := range p[:len(p)-1] {
			cur, cn = find(cur, cn, pe)
			if cur == nil {
				ok = false
				break
			}
		}
		if !ok {
			continue
		}
		last := p[len(p)-1]
		switch n.Kind {
		case KLeafList:
			for _, el := range ParseLL(c[k]) {
				e := cur.CreateElement(last.Name)
				if n.NS != cn.NS || cn == Root {
					e.CreateAttr("xmlns", n.NS)
				}
				e.SetText(el)
			}
		case KLeaf:
			e := cur.CreateElement(last.Name)
			if n.NS != cn.NS || cn == Root {
				e.CreateAttr("xmlns", n.NS)
			}
			e.SetText(c[k])
		default:
			find(cur, cn, last) // presence container
		}
	}
	return doc
}
func (f *NCFake) Lock(t string) (*types.NetconfResponse, error)     { return f.other("Lock", t) }
func (f *NCFake) Unlock(t string) (*types.NetconfResponse, error)   { return f.other("Unlock", t) }
func (f *NCFake) Validate(s string) (*types.NetconfResponse, error) { return f.other("Validate", s) }
func (f *NCFake) Close() error {
	f.mu.Lock()
	defer f.mu.Unlock()
	f.Alive = false
	f.rec(NCCall{Op: "Close", Result: "ok"})
	return nil
}
func (f *NCFake) IsAlive() bool { f.mu.Lock(); defer f.mu.Unlock(); return f.Alive }

func (f *NCFake) State() (pending, running []string, commits [][]string) {
	f.mu.Lock()
	defer f.mu.Unlock()
	return append([]string{}, f.Pending...), append([]string{}, f.Running...), append([][]string{}, f.Commits...)
}

// NCTee is the southbound target of the C18 harness: the real NETCONF target
// over the fake driver first; only a change it accepted reaches the device.
type NCTee struct {
	NC   target.Target
	Dev  *Device
	Opts *config.SBINetconfOptions
	mu   sync.Mutex
	// Sets records, per Set call, the document the harness itself renders from
	// the same source with the configured options, and the outcome.
	Sets []NCSet
}

type NCSet struct {
	// NoChange: the proto rendering of the same tree holds neither updates nor deletes
	NoChange bool
	WantDoc  string
	Err      error
	Warn     []string
}

func (t *NCTee) Get(ctx context.Context, req *sdcpb.GetDataRequest) (*sdcpb.GetDataResponse, error) {
	return t.Dev.Get(ctx, req)
}

func (t *NCTee) Set(ctx context.Context, source target.TargetSource) (*sdcpb.SetDataResponse, error) {
	want := ""
	if x, err := source.ToXML(true, t.Opts.IncludeNS, t.Opts.OperationWithNamespace, t.Opts.UseOperationRemove); err == nil && x != nil {
		want, _ = x.WriteToString()
	}
	pu, e1 := source.ToProtoUpdates(ctx, true)
	pd, e2 := source.ToProtoDeletes(ctx)
	noChange := e1 == nil && e2 == nil && len(pu) == 0 && len(pd) == 0
	rsp, err := t.NC.Set(ctx, source)
	t.mu.Lock()
	t.Sets = append(t.Sets, NCSet{NoChange: noChange, WantDoc: want, Err: err, Warn: rsp.GetWarnings()})
	t.mu.Unlock()
	if err != nil {
		return nil, err
	}
	if _, derr := t.Dev.Set(ctx, source); derr != nil {
		return nil, derr
	}
	return rsp, nil
}

func (t *NCTee) LastSet() (NCSet, int) {
	t.mu.Lock()
	defer t.mu.Unlock()
	if len(t.Sets) == 0 {
		return NCSet{}, 0
	}
	return t.Sets[len(t.Sets)-1], len(t.Sets)
}

func (t *NCTee) Sync(ctx context.Context, c *config.Sync, ch chan *target.SyncUpdate) {}
func (t *NCTee) Status() *target.TargetStatus                                         { return t.NC.Status() }
func (t *NCTee) Close() error                                                         { return nil }
