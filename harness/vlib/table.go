package vlib

import (
	"context"
	"fmt"
	"sort"
	"strings"

	sdcpb "github.com/sdcio/sdc-protos/sdcpb"
)

// Hand-written description of /verif/schema. It is the harness's ground truth
// for generators, decoders and reference models; SelfCheck compares it with
// what the real schema-server returns so that table and YANG cannot drift.

type Kind int

const (
	KContainer Kind = iota
	KList
	KLeaf
	KLeafList
)

const (
	NSMain  = "urn:verif:main"
	NSExt   = "urn:verif:ext"
	NSIds   = "urn:verif:ids"
	ModMain = "verif-main"
	ModExt  = "verif-ext"
	ModIds  = "verif-ids"
)

type Node struct {
	Name     string
	Kind     Kind
	Keys     []string // declared order (lists)
	Module   string
	NS       string
	Type     string // YANG built-in type name for leaf / leaf-list
	Default  string
	Presence bool
	State    bool
	Choice   string // name of the choice this node is a member of ("" = none)
	Case     string
	Children []*Node
	Parent   *Node
	// type details
	FracDigits int
	Enums      []string
	Bits       []string
	UnionTypes []string
	LeafrefTo  string // type of the leafref target
	IsKey      bool
	// Domain: the values generators use for this node instead of the type's domain (a constrained leaf)
	Domain []string
}

func (n *Node) Child(name string) *Node {
	for _, c := range n.Children {
		if c.Name == name {
			return c
		}
	}
	return nil
}

func (n *Node) IsLeafish() bool { return n.Kind == KLeaf || n.Kind == KLeafList }

// SchemaPath returns the keyless element names from the root.
func (n *Node) SchemaPath() []string {
	if n.Parent == nil {
		return nil
	}
	return append(n.Parent.SchemaPath(), n.Name)
}

type nodeOpt func(*Node)

func ext() nodeOpt                 { return func(n *Node) { n.Module, n.NS = ModExt, NSExt } }
func def(v string) nodeOpt         { return func(n *Node) { n.Default = v } }
func domain(v ...string) nodeOpt   { return func(n *Node) { n.Domain = v } }
func state() nodeOpt               { return func(n *Node) { n.State = true } }
func presence() nodeOpt            { return func(n *Node) { n.Presence = true } }
func member(ch, cs string) nodeOpt { return func(n *Node) { n.Choice, n.Case = ch, cs } }
func frac(d int) nodeOpt           { return func(n *Node) { n.FracDigits = d } }
func enums(e ...string) nodeOpt    { return func(n *Node) { n.Enums = e } }
func bits(e ...string) nodeOpt     { return func(n *Node) { n.Bits = e } }
func union(t ...string) nodeOpt    { return func(n *Node) { n.UnionTypes = t } }
func lrefTo(t string) nodeOpt      { return func(n *Node) { n.LeafrefTo = t } }

func mk(kind Kind, name, typ string, opts []nodeOpt, children []*Node) *Node {
	n := &Node{Name: name, Kind: kind, Type: typ, Module: ModMain, NS: NSMain, Children: children}
	for _, o := range opts {
		o(n)
	}
	return n
}

func split(args []any) ([]nodeOpt, []*Node) {
	var o []nodeOpt
	var c []*Node
	for _, a := range args {
		switch x := a.(type) {
		case nodeOpt:
			o = append(o, x)
		case *Node:
			c = append(c, x)
		default:
			panic(fmt.Sprintf("bad table arg %T", a))
		}
	}
	return o, c
}

func cont(name string, args ...any) *Node {
	o, c := split(args)
	return mk(KContainer, name, "", o, c)
}
func list(name string, keys string, args ...any) *Node {
	o, c := split(args)
	n := mk(KList, name, "", o, c)
	n.Keys = strings.Fields(keys)
	return n
}
func leaf(name, typ string, opts ...nodeOpt) *Node     { return mk(KLeaf, name, typ, opts, nil) }
func leaflist(name, typ string, opts ...nodeOpt) *Node { return mk(KLeafList, name, typ, opts, nil) }

var Root = buildTable()

func buildTable() *Node {
	enu := enums("one", "two", "three-3")
	uni := union("int32", "enumeration", "string")
	root := cont("",
		leaf("top", "string"), leaflist("topll", "string"),
		cont("plain",
			leaf("descr", "string"), leaf("descr-long", "string"), leaf("a", "string"), leaf("a_b", "string"),
			leaf("num", "uint32"), leaf("flag", "boolean"), leaf("defleaf", "string", def("dflt")),
			leaflist("tags", "string"),
			cont("pres", presence(), leaf("inner", "string")),
			cont("sub", leaf("x", "string"), leaf("y", "int32")),
			cont("dc", leaf("dflt", "string", def("d0")), leaf("other", "string"), cont("in", leaf("z", "string"))),
			list("l1", "name",
				leaf("name", "string"), leaf("descr", "string"), leaf("descr-long", "string"),
				leaf("mtu", "uint16"), leaf("defmtu", "uint16", def("1500")), leaflist("tags", "string"),
				leaf("oper", "string", state()),
				cont("cfg", leaf("mode", "string"), cont("pres", presence()), leaf("descr", "string", domain("1", "22", "333"))),
				list("sub", "id", leaf("id", "uint32"), leaf("v", "string")),
				leaf("extattr", "string", ext()),
			),
			list("l2a", "a b", leaf("a", "string"), leaf("b", "string"), leaf("v", "string"), leaf("w", "string")),
			list("il", "id", leaf("id", "identityref"), leaf("v", "string"), leaf("w", "string")),
			list("l2z", "zone name", leaf("zone", "string"), leaf("name", "string"), leaf("v", "string")),
			list("l3", "k3 k1 k2", leaf("k1", "string"), leaf("k2", "string"), leaf("k3", "string"), leaf("v", "string")),
			list("l3a", "k1 k2 k3", leaf("k1", "string"), leaf("k2", "string"), leaf("k3", "string"), leaf("v", "string")),
			list("ifc", "name", leaf("name", "string"), leaf("v", "string")),
			list("ifc-ext", "name", leaf("name", "string"), leaf("v", "string")),
			leaf("extleaf", "string", ext()),
			cont("extc", ext(), leaf("e1", "string", ext()), leaflist("e2", "string", ext())),
			leaflist("extll", "string", ext()),
		),
		cont("chc",
			leaf("ca", "string", member("top", "c1")), leaf("ca2", "string", member("top", "c1")),
			leaf("cb", "string", member("top", "c2")),
			cont("cbc", member("top", "c2"), leaf("x", "string")),
			cont("cbp", member("top", "c2"), presence(), leaf("y", "string")),
			leaflist("cl", "string", member("top", "c3")),
			leaf("ca-x", "string"), leaf("ca_x", "string"), leaf("other", "string"),
			cont("cb-x", leaf("v", "string")),
			list("cl-more", "k", leaf("k", "string"), leaf("v", "string")),
			list("ce", "name",
				leaf("name", "string"),
				leaf("ia", "string", member("inl", "i1")),
				leaf("ib", "string", member("inl", "i2")), leaf("ib2", "string", member("inl", "i2")),
				leaf("ia-x", "string"), leaf("pv", "string"),
			),
			cont("nest",
				cont("oi", member("outer", "o1"),
					leaf("na", "string", member("inner", "n1")),
					leaf("nb", "string", member("inner", "n2")), leaf("nb2", "string", member("inner", "n2")),
					leaf("oil", "string"),
				),
				leaf("o1l", "string", member("outer", "o1")),
				leaf("oc", "string", member("outer", "o2")),
			),
		),
		cont("cons",
			leaf("rng-s", "int32"), leaf("rng-u", "uint16"), leaflist("rng-ll", "uint8"),
			leaf("len", "string"), leaf("pat", "string"),
			leaf("lo", "uint32"), leaf("hi", "uint32"), leaf("ilo", "int32"), leaf("ihi", "int32"),
			leaf("mode", "string"), leaf("modedep", "string"),
			leaf("defmode", "string", def("on")), leaf("defdep", "string"), leaf("defdep2", "string"),
			cont("sd", presence(), leaf("mode", "string", def("on")), leaf("en", "boolean"), leaf("other", "string")),
			list("svc", "name", leaf("name", "string"), leaf("kind", "string"), leaf("note", "string"), leaf("weight", "uint8", def("5")), leaf("dd", "string")),
			cont("mc", presence(), leaf("musthave", "string"), leaf("opt", "string"), leaf("mcd", "string", def("d"))),
			list("ref", "name", leaf("name", "string"),
				leaf("target", "leafref", lrefTo("string")), leaf("soft", "leafref", lrefTo("string")),
				leaf("needkind", "string"), leaf("svcname", "string"), leaf("viasvc", "leafref", lrefTo("string")), leaf("chk", "string"), leaf("wref", "string")),
			list("grp", "name", leaf("name", "string"), leaflist("members", "string"), leaflist("maxonly", "string")),
		),
		cont("types",
			leaf("i8", "int8"), leaf("i16", "int16"), leaf("i32", "int32"), leaf("i64", "int64"),
			leaf("u8", "uint8"), leaf("u16", "uint16"), leaf("u32", "uint32"), leaf("u64", "uint64"),
			leaf("d1", "decimal64", frac(1)), leaf("d3", "decimal64", frac(3)), leaf("d18", "decimal64", frac(18)),
			leaf("str", "string"), leaf("bool", "boolean"), leaf("enu", "enumeration", enu),
			leaf("bits", "bits", bits("b0", "b1", "b2")), leaf("bin", "binary"), leaf("emp", "empty"),
			leaf("idr", "identityref"), leaf("uni", "union", uni),
			leaf("lrefu", "leafref", lrefTo("uint64")), leaf("lrefi", "leafref", lrefTo("identityref")),
			leaf("iid", "instance-identifier"),
			leaflist("ll-i8", "int8"), leaflist("ll-i64", "int64"), leaflist("ll-u8", "uint8"), leaflist("ll-u64", "uint64"),
			leaflist("ll-d3", "decimal64", frac(3)), leaflist("ll-str", "string"), leaflist("ll-bool", "boolean"),
			leaflist("ll-enu", "enumeration", enu), leaflist("ll-idr", "identityref"), leaflist("ll-uni", "union", uni),
		),
		cont("state", state(), leaf("counter", "uint64", state()), leaf("oper", "string", state()), leaf("oper-reason", "string", state()),
			list("nbr", "id", leaf("id", "string", state()), leaf("v", "string", state()))),
	)
	var fix func(n *Node, inheritedState bool)
	fix = func(n *Node, st bool) {
		if st {
			n.State = true
		}
		for _, c := range n.Children {
			c.Parent = n
			if n.Kind == KList {
				for _, k := range n.Keys {
					if k == c.Name {
						c.IsKey = true
					}
				}
			}
			fix(c, n.State)
		}
	}
	fix(root, false)
	return root
}

// Lookup finds the node for a keyless schema path.
func Lookup(names ...string) *Node {
	n := Root
	for _, nm := range names {
		n = n.Child(nm)
		if n == nil {
			return nil
		}
	}
	return n
}

// ModulePrefix: module name -> its own prefix.
var ModulePrefix = map[string]string{ModIds: "vi", ModMain: "vm", ModExt: "ve"}

// Identities known to the harness: name -> module.
var Identities = map[string]string{"red": ModIds, "green": ModIds, "blue": ModMain, "purple": ModExt}

// ChoiceMembers returns choice name -> case name -> member names for a container/list node.
func (n *Node) ChoiceMembers() map[string]map[string][]string {
	res := map[string]map[string][]string{}
	for _, c := range n.Children {
		if c.Choice == "" {
			continue
		}
		if res[c.Choice] == nil {
			res[c.Choice] = map[string][]string{}
		}
		res[c.Choice][c.Case] = append(res[c.Choice][c.Case], c.Name)
	}
	return res
}

// SelfCheck walks the table and compares it with the real schema-server.
func SelfCheck(ctx context.Context, env *Env) error {
	var errs []string
	var walk func(n *Node, path []*sdcpb.PathElem)
	walk = func(n *Node, path []*sdcpb.PathElem) {
		rsp, err := env.SchemaClient.GetSchema(ctx, &sdcpb.GetSchemaRequest{Schema: SchemaRef(), Path: &sdcpb.Path{Elem: path}})
		if err != nil {
			errs = append(errs, fmt.Sprintf("%v: %v", n.SchemaPath(), err))
			return
		}
		where := "/" + strings.Join(n.SchemaPath(), "/")
		bad := func(f string, a ...any) { errs = append(errs, where+": "+fmt.Sprintf(f, a...)) }
		switch s := rsp.GetSchema().GetSchema().(type) {
		case *sdcpb.SchemaElem_Container:
			c := s.Container
			if n.Kind != KContainer && n.Kind != KList {
				bad("table kind %v but schema says container", n.Kind)
				return
			}
			var keys []string
			for _, k := range c.Keys {
				keys = append(keys, k.Name)
			}
			if strings.Join(keys, " ") != strings.Join(n.Keys, " ") {
				bad("keys table=%v schema=%v", n.Keys, keys)
			}
			if n.Parent != nil {
				if c.Namespace != n.NS {
					bad("ns table=%s schema=%s", n.NS, c.Namespace)
				}
				if c.IsPresence != n.Presence {
					bad("presence table=%v schema=%v", n.Presence, c.IsPresence)
				}
				if c.IsState != n.State {
					bad("state table=%v schema=%v", n.State, c.IsState)
				}
			}
			// children sets (key leaves are not listed as fields by the schema-server)
			real := map[string]string{}
			for _, f := range c.Fields {
				real[f.Name] = "leaf"
			}
			for _, l := range c.Leaflists {
				real[l.Name] = "leaflist"
			}
			for _, ch := range c.Children {
				real[ch] = "container"
			}
			for _, k := range keys {
				real[k] = "leaf"
			}
			tab := map[string]string{}
			for _, ch := range n.Children {
				switch ch.Kind {
				case KLeaf:
					tab[ch.Name] = "leaf"
				case KLeafList:
					tab[ch.Name] = "leaflist"
				default:
					tab[ch.Name] = "container"
				}
			}
			if n.Parent != nil || true {
				if n.Parent == nil {
					// root: children are module names in the schema-server
					real = tab
				}
				if fmt.Sprint(sortedKV(real)) != fmt.Sprint(sortedKV(tab)) {
					bad("children table=%v schema=%v", sortedKV(tab), sortedKV(real))
				}
			}
			// choices
			tc := n.ChoiceMembers()
			rc := map[string]map[string][]string{}
			for chn, ch := range c.GetChoiceInfo().GetChoice() {
				rc[chn] = map[string][]string{}
				for csn, cs := range ch.GetCase() {
					rc[chn][csn] = append([]string{}, cs.GetElements()...)
				}
			}
			if canonChoice(tc) != canonChoice(rc) {
				bad("choices table=%s schema=%s", canonChoice(tc), canonChoice(rc))
			}
			// defaults
			var td []string
			for _, ch := range n.Children {
				if ch.Default != "" {
					td = append(td, ch.Name)
				}
			}
			rd := append([]string{}, c.ChildsWithDefaults...)
			sort.Strings(td)
			sort.Strings(rd)
			if strings.Join(td, ",") != strings.Join(rd, ",") {
				bad("defaults table=%v schema=%v", td, rd)
			}
			for _, f := range c.Fields {
				ch := n.Child(f.Name)
				if ch == nil {
					continue
				}
				if f.Namespace != ch.NS {
					bad("field %s ns table=%s schema=%s", f.Name, ch.NS, f.Namespace)
				}
				if f.GetType().GetType() != ch.Type {
					bad("field %s type table=%s schema=%s", f.Name, ch.Type, f.GetType().GetType())
				}
				if f.Default != ch.Default {
					bad("field %s default table=%q schema=%q", f.Name, ch.Default, f.Default)
				}
				if f.IsState != ch.State {
					bad("field %s state table=%v schema=%v", f.Name, ch.State, f.IsState)
				}
			}
			for _, l := range c.Leaflists {
				ch := n.Child(l.Name)
				if ch == nil {
					continue
				}
				if l.Namespace != ch.NS {
					bad("leaflist %s ns table=%s schema=%s", l.Name, ch.NS, l.Namespace)
				}
				if l.GetType().GetType() != ch.Type {
					bad("leaflist %s type table=%s schema=%s", l.Name, ch.Type, l.GetType().GetType())
				}
			}
			for _, ch := range n.Children {
				if ch.Kind == KContainer || ch.Kind == KList {
					walk(ch, append(append([]*sdcpb.PathElem{}, path...), &sdcpb.PathElem{Name: ch.Name}))
				}
			}
		default:
			bad("unexpected schema elem %T", s)
		}
	}
	walk(Root, nil)
	if len(errs) > 0 {
		return fmt.Errorf("schema table mismatch:\n  %s", strings.Join(errs, "\n  "))
	}
	return nil
}

func sortedKV(m map[string]string) []string {
	var r []string
	for k, v := range m {
		r = append(r, k+":"+v)
	}
	sort.Strings(r)
	return r
}

func canonChoice(m map[string]map[string][]string) string {
	var out []string
	for ch, cases := range m {
		for cs, el := range cases {
			e := append([]string{}, el...)
			sort.Strings(e)
			out = append(out, ch+"/"+cs+"="+strings.Join(e, ","))
		}
	}
	sort.Strings(out)
	return strings.Join(out, ";")
}
