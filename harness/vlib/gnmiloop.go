package vlib

import (
	"context"
	"fmt"
	schemaClient "github.com/sdcio/data-server/pkg/datastore/clients/schema"
	"github.com/sdcio/data-server/pkg/datastore/target"
	"os"
	"strings"
	"sync"
	"time"

	"github.com/openconfig/gnmi/proto/gnmi"
	"github.com/sdcio/cache/proto/cachepb"
	"github.com/sdcio/data-server/pkg/config"
	"github.com/sdcio/data-server/pkg/datastore"
)

// closed loop: the datastore talks to an in-process gNMI device through the REAL gnmiTarget in both directions -
// gnmiTarget.Set delivers every change, gnmiTarget.Sync holds an on-change subscription whose notifications the real
// Datastore.Sync loop writes to the running store while the transactions run. The transactions therefore compute
// their diffs against a running store that the device's own reports built, as in production.
//
// After every successful step and once the device's reports are stored:
//   (1) the C01 oracle on the recording device and on the gNMI device (as in the open-loop mode),
//   (2) the running store equals what the gNMI device holds (what it can report in the encoding),
// and at the end (3) re-submitting every live intent verbatim changes nothing on either device.

type GNMILoop struct {
	// Pfx: signature prefix of the check that runs the loop (C01, C09)
	Pfx    string
	name   string
	enc    gnmi.Encoding
	tee    *GNMITee
	mu     sync.Mutex
	done   int
	cancel context.CancelFunc
}

func GNMILoopSyncConfig(enc string) *config.Sync {
	return &config.Sync{Validate: false, Buffer: 1000, WriteWorkers: 1, Config: []*config.SyncProtocol{
		{Name: "cfg", Protocol: "gnmi", Mode: "on-change", Encoding: enc, Paths: []string{"/plain"}, Interval: 100 * time.Millisecond},
		{Name: "ty", Protocol: "gnmi", Mode: "on-change", Encoding: enc, Paths: []string{"/types"}, Interval: 100 * time.Millisecond},
	}}
}

func StartGNMILoop(h *HistEnv, tee *GNMITee, enc string) (*GNMILoop, *Failure) {
	l := &GNMILoop{Pfx: "C01", name: h.DSName, tee: tee}
	l.enc = gnmi.Encoding(gnmi.Encoding_value[map[string]string{"json": "JSON", "json_ietf": "JSON_IETF", "proto": "PROTO"}[enc]])
	datastore.VerifSyncMsgDone = func(n string) {
		if n == l.name {
			l.mu.Lock()
			l.done++
			l.mu.Unlock()
		}
	}
	ctx, cancel := context.WithCancel(h.Ctx)
	l.cancel = cancel
	go h.DS.Sync(ctx)
	if f := l.wait("subscription", func() bool { return tee.GDev.Subscribers() >= 2 }); f != nil {
		return l, f
	}
	return l, l.quiescent("initial sync")
}

func (l *GNMILoop) Stop() {
	l.cancel()
	datastore.VerifSyncMsgDone = nil
}

func (l *GNMILoop) getDone() int { l.mu.Lock(); defer l.mu.Unlock(); return l.done }

func (l *GNMILoop) wait(what string, cond func() bool) *Failure {
	dl := time.Now().Add(20 * time.Second)
	for !cond() {
		if time.Now().After(dl) {
			_, _, q, s := l.tee.GDev.Counters()
			return Failf(l.Pfx+":loop:sync-stalled", "%s: %d notifications queued, %d sent, %d stored, %d subscribers", what, q, s, l.getDone(), l.tee.GDev.Subscribers())
		}
		time.Sleep(200 * time.Microsecond)
	}
	return nil
}

// quiescent: everything the device reported so far is stored
func (l *GNMILoop) quiescent(what string) *Failure {
	return l.wait(what, func() bool { _, _, q, s := l.tee.GDev.Counters(); return s == q && l.getDone() >= s })
}

// checkStore: the running store equals what the gNMI device holds
func (l *GNMILoop) CheckStore(h *HistEnv, where string) *Failure {
	if f := l.quiescent(where); f != nil {
		return f
	}
	dump, err := DumpFlat(context.Background(), h.Env.Cache, h.DSName, cachepb.Store_CONFIG)
	if err != nil {
		return Failf(l.Pfx+":loop:dump", "%v", err)
	}
	got := Conf{}
	for _, e := range dump {
		if e.Raw != "" {
			return Failf(l.Pfx+":loop:undecodable-stored-value", "%s: the running store holds %s = %s", where, e.Canon, e.Raw)
		}
		got[e.Canon] = e.Den
	}
	want := l.tee.GDev.Snapshot()
	// presence containers and values the encoding cannot carry are bookkeeping of whoever wrote last (Set or sync)
	drop := func(c Conf) {
		for k, v := range c {
			p := MustCanon(k)
			n := p.Node()
			if n == nil || n.Kind == KContainer || n.Type == "empty" || (!p.IsKeyLeaf() && !GNMIRepresentable(p, v, l.enc)) {
				delete(c, k)
			}
		}
	}
	drop(got)
	drop(want)
	// key leaves: only those of entries that hold something else
	for _, c := range []Conf{got, want} {
		for k := range c {
			p := MustCanon(k)
			if !p.IsKeyLeaf() {
				continue
			}
			entry, other := p[:len(p)-1], false
			for o := range c {
				q := MustCanon(o)
				if !q.IsKeyLeaf() && entry.IsStrictAncestorOf(q) {
					other = true
					break
				}
			}
			if !other {
				delete(c, k)
			}
		}
	}
	if d := got.Diff(want); len(d) > 0 {
		sig := l.Pfx + ":loop:running-differs-from-device"
		switch {
		case strings.Contains(d[0], "vs <absent>"):
			sig += ":extra-path"
		case strings.Contains(d[0], "<absent> vs"):
			sig += ":missing-path"
		default:
			sig += ":wrong-value"
		}
		return Failf(sig, "%s: closed loop over the real gnmiTarget (%s): the running store differs from the device (store vs device):\n  %s\nstore: %s\ndevice: %s", where, l.enc, strings.Join(d, "\n  "), JSON(got), JSON(want))
	}
	return nil
}

// reapply: every live intent re-submitted verbatim in one transaction changes nothing
func (l *GNMILoop) Reapply(h *HistEnv, pfx, where string) *Failure {
	var names []string
	for n := range h.Model.Intents {
		names = append(names, n)
	}
	if len(names) == 0 {
		return nil
	}
	// only judged when the device holds the merge (otherwise a correction is legitimate; C01 reports that)
	if CheckConvergenceConf(h.Model, h.Dev.Snapshot(), where) != nil {
		return nil
	}
	before, gBefore := h.Dev.Snapshot(), l.tee.GDev.Snapshot()
	calls := h.Dev.Calls()
	rsp, err := h.ReapplyAll("loop-reapply")
	if err != nil {
		return Failf(pfx+":loop:reapply-refused", "%s: re-submitting the live intents verbatim was refused: %v", where, err)
	}
	_ = rsp
	if h.Dev.Calls() > calls {
		if rec := h.Dev.LastRecord(); rec != nil && len(rec.Updates)+len(rec.Deletes) > 0 {
			var ps []IPath
			for _, u := range rec.Updates {
				ps = append(ps, u.Path)
			}
			return Failf(pfx+":loop:reapply-sends-change", "%s: re-submitting the live intents verbatim sent a change to the device (the running store is what the real sync made of the device's reports): %s\ndevice before: %s\nrunning store now:\n  %s\nintended store:\n  %s", where, JSON(rec), JSON(before),
				RawStored(context.Background(), h.Env.Cache, h.DSName, cachepb.Store_CONFIG, ps), RawStored(context.Background(), h.Env.Cache, h.DSName, cachepb.Store_INTENDED, ps))
		}
	}
	if d := h.Dev.Snapshot().Diff(before); len(d) > 0 {
		return Failf(pfx+":loop:reapply-changes-device", "%s: re-submitting the live intents verbatim changed the device (after vs before):\n  %s\n%d device calls, last: %s", where, strings.Join(d, "\n  "), h.Dev.Calls()-calls, JSON(h.Dev.LastRecord()))
	}
	if d := l.tee.GDev.Snapshot().Diff(gBefore); len(d) > 0 {
		return Failf(pfx+":loop:reapply-changes-device", "%s: re-submitting the live intents verbatim changed the gNMI device (after vs before):\n  %s", where, strings.Join(d, "\n  "))
	}
	return l.CheckStore(h, where+" after the re-application")
}

var _ = fmt.Sprintf

// ExecGNMILoop runs one history in the gNMI closed loop for the check pfx. Oracle ownership as in ExecNCLoop: the
// device holds the merge (C01), the running store mirrors the device (C13), the verbatim re-application at the end
// sends nothing (C09, reapply == true); what a caller does not own is a precondition (discarded and counted).
func ExecGNMILoop(c *HistCase, pfx string, reapply bool) (nontrivial bool, labels []string, fail *Failure) {
	ctx := context.Background()
	env := MustEnv()
	st := GetStats(pfx)
	var tee *GNMITee
	opts := HistEnvOpts{WrapTarget: func(dev *Device) target.Target {
		gdev := NewGNMIDevice(dev.Snapshot())
		gdev.NotifyOnSet = true
		scb := schemaClient.NewSchemaClientBound(SchemaRef(), env.SchemaClient)
		real, err := target.New(ctx, "gnmiloop", &config.SBI{Type: "gnmi", Address: "bufnet", Port: 1, GnmiOptions: &config.SBIGnmiOptions{Encoding: c.GNMI}}, scb, gdev.DialOpts()...)
		if err != nil {
			fmt.Fprintf(os.Stderr, "HARNESS-ERROR gnmi target: %v\n", err)
			os.Exit(2)
		}
		tee = &GNMITee{Dev: dev, Real: real, GDev: gdev, Loop: true}
		return tee
	}}
	opts.DS.Sync = GNMILoopSyncConfig(c.GNMI)
	h, err := NewHistEnv(ctx, env, c, opts)
	if err != nil {
		fmt.Fprintf(os.Stderr, "HARNESS-ERROR %v\n", err)
		os.Exit(2)
	}
	defer h.DS.Stop()
	defer tee.GDev.Stop()
	lab := map[string]bool{"closed-loop-gnmi-" + c.GNMI: true}
	keys := func() []string {
		var r []string
		for k := range lab {
			r = append(r, k)
		}
		return r
	}
	ownsDevice := pfx == "C01" && !reapply
	ownsStore := pfx == "C13" && !reapply
	lp, f := StartGNMILoop(h, tee, c.GNMI)
	defer lp.Stop()
	lp.Pfx = pfx
	discard := func(f *Failure) (bool, []string, *Failure) {
		st.Discard("closed-loop-precondition:" + f.Sig)
		return false, []string{"discard"}, nil
	}
	if f == nil {
		f = lp.CheckStore(h, "initial sync")
	}
	if f != nil {
		if ownsStore {
			return false, keys(), f
		}
		return discard(f)
	}
	for i, s := range c.Steps {
		res := h.RunStep(s)
		if !res.OK {
			st.Discard("step-refused")
			return false, []string{"discard"}, nil
		}
		if res.Effect.WinnerChanged || res.Effect.ShadowerRemoved {
			nontrivial = true
		}
		where := fmt.Sprintf("step %d", i)
		if f := CheckConvergence(h, where, res); f != nil {
			if ownsDevice {
				return nontrivial, keys(), f
			}
			return discard(f)
		}
		if f := lp.CheckStore(h, where); f != nil {
			if ownsStore {
				return true, keys(), f
			}
			return discard(f)
		}
		if ownsStore && h.Dev.Calls() > res.DevCallsBefore {
			nontrivial = true
		}
	}
	if reapply {
		if len(h.Model.Intents) == 0 {
			st.Discard("no-live-intent")
			return false, []string{"discard"}, nil
		}
		if f := lp.Reapply(h, pfx, "end of history"); f != nil {
			return true, keys(), f
		}
		return true, keys(), nil
	}
	return nontrivial, keys(), nil
}

// UniLoop: the universe of the gNMI closed loop - the plain subtree plus one leaf / leaf-list of every built-in type,
// so that every value is written to the running store twice (by the transaction and by the sync of the device's
// report) and compared.
var UniLoop *Universe

func init() {
	ts := append([]Tmpl{}, UniPlainNA.Tmpls...)
	for _, p := range []string{"types/i8", "types/i64", "types/u8", "types/u64", "types/d1", "types/d3", "types/d18", "types/str", "types/bool", "types/enu", "types/bits", "types/bin",
		"types/emp", "types/idr", "types/uni", "types/ll-i8", "types/ll-u64", "types/ll-d3", "types/ll-str", "types/ll-bool", "types/ll-enu", "types/ll-idr", "types/ll-uni"} {
		ts = append(ts, T(p))
	}
	UniLoop = &Universe{Name: "plain+types", Tmpls: ts}
	Universes[UniLoop.Name] = UniLoop
}
