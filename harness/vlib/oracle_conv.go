package vlib

import (
	"fmt"
	"sort"
	"strings"
)

// normPresence adds, for every leaf, the presence containers above it (a
// presence container with content exists whether or not it was set explicitly).
func NormPresence(c Conf) Conf { return normPresence(c) }

func normPresence(c Conf) Conf {
	r := c.Clone()
	for k := range c {
		p := MustCanon(k)
		n := Root
		for i, e := range p {
			n = n.Child(e.Name)
			if n == nil {
				break
			}
			if n.Kind == KContainer && n.Presence && i < len(p)-1 {
				r[p[:i+1].Canon()] = ""
			}
		}
	}
	return r
}

// scopesOf: list entries and presence containers enclosing (or equal to) p.
func scopesOf(p IPath) []string {
	var r []string
	n := Root
	for i, e := range p {
		n = n.Child(e.Name)
		if n == nil {
			break
		}
		if len(e.Keys) > 0 || (n.Kind == KContainer && n.Presence) {
			r = append(r, p[:i+1].Canon())
		}
	}
	return r
}

// CheckConvergence is the C01 oracle on the device configuration.
func CheckConvergence(h *HistEnv, where string, res *StepResult) *Failure {
	dev := h.Dev.Snapshot()
	if rec := h.Dev.LastRecord(); rec != nil && h.Dev.Calls() > res.DevCallsBefore && len(rec.Anomalies) > 0 {
		return Failf("C01:payload-anomaly:"+anomalyClass(rec.Anomalies[0]), "%s: device payload anomaly: %s", where, strings.Join(rec.Anomalies, "; "))
	}
	return CheckConvergenceConf(h.Model, dev, where)
}

func anomalyClass(a string) string {
	switch {
	case strings.Contains(a, "key leaf"):
		return "key-leaf-value"
	case strings.Contains(a, "not fully keyed"):
		return "partial-keys"
	case strings.Contains(a, "undecodable"):
		return "undecodable-value"
	case strings.Contains(a, "unknown schema"):
		return "unknown-path"
	}
	return "other"
}

// touchedScopes returns list entries / presence containers in which an intent ever defined a value.
func (m *Model) touchedScopes() map[string]bool {
	r := map[string]bool{}
	for k := range m.Ever {
		for _, s := range scopesOf(MustCanon(k)) {
			r[s] = true
		}
	}
	return r
}

func CheckConvergenceConf(m *Model, devRaw Conf, where string) *Failure {
	return CheckConvergencePfx("C01", m, devRaw, where)
}

// CheckConvergencePfx is the convergence oracle with a signature prefix (C01, C08, C07 ...).
func CheckConvergencePfx(pfx string, m *Model, devRaw Conf, where string) *Failure {
	f := checkConvergence(m, devRaw, where)
	if f != nil && pfx != "C01" {
		f.Sig = pfx + strings.TrimPrefix(f.Sig, "C01")
	}
	return f
}

func checkConvergence(m *Model, devRaw Conf, where string) *Failure {
	dev := normPresence(devRaw)
	merge := normPresence(m.Expected())
	// (A) every path defined by a live intent carries the winner's value
	for _, p := range merge.SortedKeys() {
		got, ok := dev[p]
		if !ok {
			return Failf("C01:A:missing", "%s: path %s defined by live intents %s must be %q, device has nothing\n%s", where, p, definerStr(m, p), merge[p], ctxStr(m, devRaw))
		}
		if got != merge[p] {
			sig := "C01:A:wrong-value"
			for _, d := range m.Definers(p) {
				if d.Leaves[p] == got && d.Leaves[p] != merge[p] {
					sig = "C01:A:lower-precedence-value"
				}
			}
			return Failf(sig, "%s: path %s must be %q (definers %s), device has %q\n%s", where, p, merge[p], definerStr(m, p), got, ctxStr(m, devRaw))
		}
	}
	// (B) paths defined only by intents that are no longer live / no longer contain them
	ever := make([]string, 0, len(m.Ever))
	for p := range m.Ever {
		ever = append(ever, p)
	}
	sort.Strings(ever)
	for _, p := range ever {
		if _, live := merge[p]; live || m.Orphaned[p] {
			continue
		}
		if _, present := dev[p]; !present {
			continue
		}
		ip := MustCanon(p)
		if ip.IsKeyLeaf() || (ip.Node() != nil && ip.Node().Kind == KContainer) {
			// a key leaf / presence container stays as long as its entry holds other content
			entry := ip
			if ip.IsKeyLeaf() {
				entry = ip[:len(ip)-1]
			}
			other := false
			for q := range devRaw {
				qp := MustCanon(q)
				if entry.IsStrictAncestorOf(qp) && !(qp.IsKeyLeaf() && len(qp) == len(entry)+1) {
					other = true
					break
				}
			}
			if other {
				continue
			}
		}
		sig := "C01:B:stale-leaf"
		if len(m.Definers(p)) > 0 {
			sig = "C01:B:losing-case-node-present"
		} else if ip.IsKeyLeaf() {
			sig = "C01:B:stale-list-entry"
		} else if ip.Node() != nil && ip.Node().Kind == KContainer {
			sig = "C01:B:stale-presence-container"
		}
		return Failf(sig, "%s: path %s is defined by no live intent any more but the device still holds %q\n%s", where, p, dev[p], ctxStr(m, devRaw))
	}
	// (C) unmanaged configuration outside touched scopes is untouched
	touched := m.touchedScopes()
	init := normPresence(m.Initial)
	for _, p := range init.SortedKeys() {
		if m.Ever[p] {
			continue
		}
		skip := false
		for _, s := range scopesOf(MustCanon(p)) {
			if touched[s] {
				skip = true
			}
		}
		if skip {
			continue
		}
		got, ok := dev[p]
		if !ok || got != init[p] {
			g := "<absent>"
			if ok {
				g = fmt.Sprintf("%q", got)
			}
			return Failf("C01:C:unmanaged-changed", "%s: unmanaged running path %s was %q and no intent ever defined it or touched its list entry, device now has %s\n%s", where, p, init[p], g, ctxStr(m, devRaw))
		}
	}
	return nil
}

func definerStr(m *Model, p string) string {
	var s []string
	for _, d := range m.Definers(p) {
		s = append(s, fmt.Sprintf("%s(prio %d)=%q", d.Name, d.Prio, d.Leaves[p]))
	}
	return "[" + strings.Join(s, ", ") + "]"
}

func ctxStr(m *Model, dev Conf) string {
	var sb strings.Builder
	sb.WriteString("live intents:\n")
	for _, it := range m.sorted() {
		fmt.Fprintf(&sb, "  %s prio=%d %s\n", it.Name, it.Prio, JSON(it.Leaves))
	}
	fmt.Fprintf(&sb, "device: %s\n", JSON(dev))
	return sb.String()
}
