package vlib

import (
	"context"
	"fmt"
	"sync"

	dschema "github.com/sdcio/data-server/pkg/schema"
	sdcpb "github.com/sdcio/sdc-protos/sdcpb"
	"google.golang.org/grpc"
)

// SchemaDeco wraps the schema client: it counts GetSchema calls and can fail
// exactly one of them (error or panic = restart model).
type SchemaDeco struct {
	dschema.Client
	mu        sync.Mutex
	Record    bool
	Calls     int
	FaultAt   int // 0-based ordinal among recorded calls, -1 = none
	FaultKind string
	Fired     bool
}

var ErrSchemaInjected = fmt.Errorf("verif: injected schema service failure")

func NewSchemaDeco(inner dschema.Client) *SchemaDeco { return &SchemaDeco{Client: inner, FaultAt: -1} }

func (d *SchemaDeco) Reset() {
	d.mu.Lock()
	d.Calls, d.Fired, d.FaultAt = 0, false, -1
	d.mu.Unlock()
}

func (d *SchemaDeco) Count() int { d.mu.Lock(); defer d.mu.Unlock(); return d.Calls }

func (d *SchemaDeco) GetSchema(ctx context.Context, in *sdcpb.GetSchemaRequest, opts ...grpc.CallOption) (*sdcpb.GetSchemaResponse, error) {
	d.mu.Lock()
	fault := ""
	if d.Record {
		if d.Calls == d.FaultAt && !d.Fired {
			d.Fired = true
			fault = d.FaultKind
		}
		d.Calls++
	}
	d.mu.Unlock()
	switch fault {
	case "error":
		return nil, ErrSchemaInjected
	case "panic":
		panic(CrashSentinel{At: "GetSchema"})
	}
	return d.Client.GetSchema(ctx, in, opts...)
}
