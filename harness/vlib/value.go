package vlib

import (
	"encoding/base64"
	"fmt"
	"math/big"
	"sort"
	"strconv"
	"strings"

	sdcpb "github.com/sdcio/sdc-protos/sdcpb"
	"google.golang.org/protobuf/types/known/emptypb"
)

// Abstract values are represented by a canonical string per YANG type
// ("denotation"). Two typed values denote the same datum iff their
// denotations for the schema node are equal. None of this calls data-server's
// own converters.

// Leaf-list denotations are "[" + sorted elements joined by "," (escaped) + "]"
// (config leaf-lists are ordered-by system: a set).

func escElem(s string) string {
	s = strings.ReplaceAll(s, `\`, `\\`)
	s = strings.ReplaceAll(s, `,`, `\,`)
	return s
}

func LLDenotation(elems []string) string {
	e := make([]string, len(elems))
	for i, x := range elems {
		e[i] = escElem(x)
	}
	sort.Strings(e)
	return "[" + strings.Join(e, ",") + "]"
}

var intBounds = map[string][2]string{
	"int8": {"-128", "127"}, "int16": {"-32768", "32767"}, "int32": {"-2147483648", "2147483647"},
	"int64": {"-9223372036854775808", "9223372036854775807"},
	"uint8": {"0", "255"}, "uint16": {"0", "65535"}, "uint32": {"0", "4294967295"}, "uint64": {"0", "18446744073709551615"},
}

func isIntType(t string) bool { _, ok := intBounds[t]; return ok }

// DecimalCanon normalises unscaled*10^-scale to a canonical decimal string.
func DecimalCanon(unscaled *big.Int, scale uint32) string {
	if scale > 1000 {
		// not a decimal64 (at most 18 fraction digits): do not try to scale it
		return fmt.Sprintf("<decimal %se-%d>", unscaled.String(), scale)
	}
	r := new(big.Rat).SetFrac(unscaled, new(big.Int).Exp(big.NewInt(10), big.NewInt(int64(scale)), nil))
	return ratCanon(r)
}

func ratCanon(r *big.Rat) string {
	// decimal64 values have at most 18 fraction digits
	s := r.FloatString(18)
	if strings.Contains(s, ".") {
		s = strings.TrimRight(s, "0")
		s = strings.TrimSuffix(s, ".")
	}
	if s == "-0" {
		s = "0"
	}
	return s
}

// ParseDecimalLexical parses a YANG decimal64 lexical form ("-1.50", "3").
func ParseDecimalLexical(s string) (string, error) {
	r, ok := new(big.Rat).SetString(s)
	if !ok || strings.ContainsAny(s, "eE/") {
		return "", fmt.Errorf("bad decimal %q", s)
	}
	return ratCanon(r), nil
}

// scalarType describes what is needed to denote a scalar.
type scalarType struct {
	Type       string
	Enums      []string
	Bits       []string
	UnionTypes []string
	LeafrefTo  string
}

func nodeScalarType(n *Node) scalarType {
	return scalarType{Type: n.Type, Enums: n.Enums, Bits: n.Bits, UnionTypes: n.UnionTypes, LeafrefTo: n.LeafrefTo}
}

// DenoteTV maps a typed value observed for schema node n to its denotation.
func DenoteTV(n *Node, tv *sdcpb.TypedValue) (string, error) {
	if n == nil {
		return "", fmt.Errorf("no schema node")
	}
	if tv == nil || tv.Value == nil {
		if n.Kind == KContainer && n.Presence {
			return "", nil
		}
		return "", fmt.Errorf("nil typed value")
	}
	switch n.Kind {
	case KContainer, KList:
		if !n.Presence {
			return "", fmt.Errorf("value on non-presence container %s", n.Name)
		}
		if _, ok := tv.Value.(*sdcpb.TypedValue_EmptyVal); ok {
			return "", nil
		}
		return "", fmt.Errorf("presence container %s with non-empty value %v", n.Name, tv)
	case KLeafList:
		ll, ok := tv.Value.(*sdcpb.TypedValue_LeaflistVal)
		if !ok {
			return "", fmt.Errorf("leaf-list %s carries %T", n.Name, tv.Value)
		}
		var elems []string
		for _, e := range ll.LeaflistVal.GetElement() {
			d, err := denoteScalar(nodeScalarType(n), e)
			if err != nil {
				return "", err
			}
			elems = append(elems, d)
		}
		return LLDenotation(elems), nil
	}
	return denoteScalar(nodeScalarType(n), tv)
}

func denoteScalar(st scalarType, tv *sdcpb.TypedValue) (string, error) {
	if tv == nil || tv.Value == nil {
		return "", fmt.Errorf("nil scalar")
	}
	t := st.Type
	if t == "leafref" {
		return denoteScalar(scalarType{Type: st.LeafrefTo}, tv)
	}
	switch {
	case isIntType(t):
		var b *big.Int
		switch v := tv.Value.(type) {
		case *sdcpb.TypedValue_IntVal:
			b = big.NewInt(v.IntVal)
		case *sdcpb.TypedValue_UintVal:
			b = new(big.Int).SetUint64(v.UintVal)
		case *sdcpb.TypedValue_StringVal:
			x, ok := new(big.Int).SetString(v.StringVal, 10)
			if !ok {
				return "", fmt.Errorf("%s: not an integer: %q", t, v.StringVal)
			}
			b = x
		default:
			return "", fmt.Errorf("%s carried as %T", t, tv.Value)
		}
		return b.String(), nil
	case t == "decimal64":
		switch v := tv.Value.(type) {
		case *sdcpb.TypedValue_DecimalVal:
			return DecimalCanon(big.NewInt(v.DecimalVal.GetDigits()), v.DecimalVal.GetPrecision()), nil
		case *sdcpb.TypedValue_StringVal:
			return ParseDecimalLexical(v.StringVal)
		case *sdcpb.TypedValue_DoubleVal:
			return ratCanon(new(big.Rat).SetFloat64(v.DoubleVal)), nil
		case *sdcpb.TypedValue_FloatVal:
			return ParseDecimalLexical(strconv.FormatFloat(float64(v.FloatVal), 'f', -1, 32))
		}
		return "", fmt.Errorf("decimal64 carried as %T", tv.Value)
	case t == "string", t == "instance-identifier":
		if v, ok := tv.Value.(*sdcpb.TypedValue_StringVal); ok {
			return v.StringVal, nil
		}
		if v, ok := tv.Value.(*sdcpb.TypedValue_AsciiVal); ok {
			return v.AsciiVal, nil
		}
		return "", fmt.Errorf("string carried as %T", tv.Value)
	case t == "boolean":
		switch v := tv.Value.(type) {
		case *sdcpb.TypedValue_BoolVal:
			return strconv.FormatBool(v.BoolVal), nil
		case *sdcpb.TypedValue_StringVal:
			if v.StringVal == "true" || v.StringVal == "false" {
				return v.StringVal, nil
			}
		}
		return "", fmt.Errorf("boolean carried as %v", tv)
	case t == "enumeration":
		if v, ok := tv.Value.(*sdcpb.TypedValue_StringVal); ok {
			return v.StringVal, nil
		}
		return "", fmt.Errorf("enumeration carried as %T", tv.Value)
	case t == "bits":
		if v, ok := tv.Value.(*sdcpb.TypedValue_StringVal); ok {
			f := strings.Fields(v.StringVal)
			sort.Strings(f)
			return strings.Join(f, " "), nil
		}
		return "", fmt.Errorf("bits carried as %T", tv.Value)
	case t == "binary":
		switch v := tv.Value.(type) {
		case *sdcpb.TypedValue_BytesVal:
			return base64.StdEncoding.EncodeToString(v.BytesVal), nil
		case *sdcpb.TypedValue_StringVal:
			b, err := base64.StdEncoding.DecodeString(v.StringVal)
			if err != nil {
				return "", fmt.Errorf("binary: %v", err)
			}
			return base64.StdEncoding.EncodeToString(b), nil
		}
		return "", fmt.Errorf("binary carried as %T", tv.Value)
	case t == "empty":
		if _, ok := tv.Value.(*sdcpb.TypedValue_EmptyVal); ok {
			return "", nil
		}
		return "", fmt.Errorf("empty carried as %T", tv.Value)
	case t == "identityref":
		switch v := tv.Value.(type) {
		case *sdcpb.TypedValue_IdentityrefVal:
			return v.IdentityrefVal.GetValue(), nil
		case *sdcpb.TypedValue_StringVal:
			s := v.StringVal
			if i := strings.Index(s, ":"); i >= 0 {
				s = s[i+1:]
			}
			return s, nil
		}
		return "", fmt.Errorf("identityref carried as %T", tv.Value)
	case t == "union":
		// the denotation of a union value is its lexical form
		switch v := tv.Value.(type) {
		case *sdcpb.TypedValue_StringVal:
			return v.StringVal, nil
		case *sdcpb.TypedValue_IntVal:
			return strconv.FormatInt(v.IntVal, 10), nil
		case *sdcpb.TypedValue_UintVal:
			return strconv.FormatUint(v.UintVal, 10), nil
		case *sdcpb.TypedValue_BoolVal:
			return strconv.FormatBool(v.BoolVal), nil
		}
		return "", fmt.Errorf("union carried as %T", tv.Value)
	}
	return "", fmt.Errorf("unhandled type %q", t)
}

// ---------------------------------------------------------------- rendering inputs

// TVFromDenotation renders denotation d for node n as the typed value a
// well-behaved client would send ("typed" form).
func TVFromDenotation(n *Node, d string) *sdcpb.TypedValue {
	if n.Kind == KContainer {
		return &sdcpb.TypedValue{Value: &sdcpb.TypedValue_EmptyVal{EmptyVal: &emptypb.Empty{}}}
	}
	if n.Kind == KLeafList {
		var elems []*sdcpb.TypedValue
		for _, e := range ParseLL(d) {
			elems = append(elems, scalarTV(nodeScalarType(n), e))
		}
		return &sdcpb.TypedValue{Value: &sdcpb.TypedValue_LeaflistVal{LeaflistVal: &sdcpb.ScalarArray{Element: elems}}}
	}
	return scalarTV(nodeScalarType(n), d)
}

// StoredTVFromDenotation renders d the way the sync of a device report stores it: as TVFromDenotation, but a union
// value takes the representation of the first member type it fits (what the device-side converters produce).
func StoredTVFromDenotation(n *Node, d string) *sdcpb.TypedValue {
	st := nodeScalarType(n)
	if st.Type != "union" || n.Kind == KContainer {
		return TVFromDenotation(n, d)
	}
	if n.Kind == KLeafList {
		var elems []*sdcpb.TypedValue
		for _, e := range ParseLL(d) {
			elems = append(elems, unionStoredTV(st, e))
		}
		return &sdcpb.TypedValue{Value: &sdcpb.TypedValue_LeaflistVal{LeaflistVal: &sdcpb.ScalarArray{Element: elems}}}
	}
	return unionStoredTV(st, d)
}

func unionStoredTV(st scalarType, d string) *sdcpb.TypedValue {
	for _, m := range st.UnionTypes {
		if b, ok := intBounds[m]; ok {
			v, okv := new(big.Int).SetString(d, 10)
			lo, _ := new(big.Int).SetString(b[0], 10)
			hi, _ := new(big.Int).SetString(b[1], 10)
			if okv && v.Cmp(lo) >= 0 && v.Cmp(hi) <= 0 && (d == "0" || !strings.HasPrefix(strings.TrimPrefix(d, "-"), "0")) {
				return scalarTV(scalarType{Type: m}, d)
			}
			continue
		}
		if m == "boolean" && (d == "true" || d == "false") {
			return scalarTV(scalarType{Type: m}, d)
		}
		if m == "enumeration" || m == "string" {
			break
		}
	}
	return &sdcpb.TypedValue{Value: &sdcpb.TypedValue_StringVal{StringVal: d}}
}

// StringTVFromDenotation renders d as a string-valued typed value (the
// "string" input form); leaf-lists become a leaf-list of string elements.
func StringTVFromDenotation(n *Node, d string) *sdcpb.TypedValue {
	if n.Kind == KContainer {
		return &sdcpb.TypedValue{Value: &sdcpb.TypedValue_EmptyVal{EmptyVal: &emptypb.Empty{}}}
	}
	if n.Kind == KLeafList {
		var elems []*sdcpb.TypedValue
		for _, e := range ParseLL(d) {
			elems = append(elems, &sdcpb.TypedValue{Value: &sdcpb.TypedValue_StringVal{StringVal: e}})
		}
		return &sdcpb.TypedValue{Value: &sdcpb.TypedValue_LeaflistVal{LeaflistVal: &sdcpb.ScalarArray{Element: elems}}}
	}
	if n.Type == "empty" {
		// the type has no lexical value; a client can only send the empty typed value
		return &sdcpb.TypedValue{Value: &sdcpb.TypedValue_EmptyVal{EmptyVal: &emptypb.Empty{}}}
	}
	return &sdcpb.TypedValue{Value: &sdcpb.TypedValue_StringVal{StringVal: d}}
}

// ParseLL inverts LLDenotation.
func ParseLL(d string) []string {
	d = strings.TrimPrefix(d, "[")
	d = strings.TrimSuffix(d, "]")
	if d == "" {
		return nil
	}
	var res []string
	var cur strings.Builder
	for i := 0; i < len(d); i++ {
		switch {
		case d[i] == '\\' && i+1 < len(d):
			i++
			cur.WriteByte(d[i])
		case d[i] == ',':
			res = append(res, cur.String())
			cur.Reset()
		default:
			cur.WriteByte(d[i])
		}
	}
	res = append(res, cur.String())
	return res
}

func scalarTV(st scalarType, d string) *sdcpb.TypedValue {
	t := st.Type
	if t == "leafref" {
		return scalarTV(scalarType{Type: st.LeafrefTo}, d)
	}
	switch {
	case strings.HasPrefix(t, "uint"):
		u, _ := strconv.ParseUint(d, 10, 64)
		return &sdcpb.TypedValue{Value: &sdcpb.TypedValue_UintVal{UintVal: u}}
	case strings.HasPrefix(t, "int"):
		i, _ := strconv.ParseInt(d, 10, 64)
		return &sdcpb.TypedValue{Value: &sdcpb.TypedValue_IntVal{IntVal: i}}
	case t == "boolean":
		return &sdcpb.TypedValue{Value: &sdcpb.TypedValue_BoolVal{BoolVal: d == "true"}}
	case t == "empty":
		return &sdcpb.TypedValue{Value: &sdcpb.TypedValue_EmptyVal{EmptyVal: &emptypb.Empty{}}}
	case t == "decimal64":
		// d is canonical: optional '-', digits, optional '.', digits
		neg := strings.HasPrefix(d, "-")
		s := strings.TrimPrefix(d, "-")
		ip, fp, _ := strings.Cut(s, ".")
		u, _ := new(big.Int).SetString(ip+fp, 10)
		if neg {
			u.Neg(u)
		}
		return &sdcpb.TypedValue{Value: &sdcpb.TypedValue_DecimalVal{DecimalVal: &sdcpb.Decimal64{Digits: u.Int64(), Precision: uint32(len(fp))}}}
	case t == "binary":
		// data-server carries binary as the base64 text (utils.ConvertBinary)
		return &sdcpb.TypedValue{Value: &sdcpb.TypedValue_StringVal{StringVal: d}}
	case t == "identityref":
		return &sdcpb.TypedValue{Value: &sdcpb.TypedValue_IdentityrefVal{IdentityrefVal: &sdcpb.IdentityRef{Value: d, Module: Identities[d], Prefix: ModulePrefix[Identities[d]]}}}
	}
	return &sdcpb.TypedValue{Value: &sdcpb.TypedValue_StringVal{StringVal: d}}
}
