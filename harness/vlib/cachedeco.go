package vlib

import (
	"context"
	"fmt"
	"sync"
	"time"

	"github.com/sdcio/cache/proto/cachepb"
	"github.com/sdcio/data-server/pkg/cache"
)

// CacheCall describes one call data-server made to its cache collaborator.
type CacheCall struct {
	Op    string // Read | ReadCh | GetKeys | Modify
	Store string
	Dels  int
	Upds  int
}

func (c CacheCall) String() string {
	return fmt.Sprintf("%s(%s,dels=%d,upds=%d)", c.Op, c.Store, c.Dels, c.Upds)
}

// CacheDeco wraps the real cache client: it records calls, can fail exactly
// one chosen call (error / empty result / panic = restart model) and can gate
// Modify calls (harness-owned completion order, C13).
type CacheDeco struct {
	cache.Client
	mu     sync.Mutex
	Calls  []CacheCall
	Record bool
	// fault injection: the call with this 0-based ordinal among recorded calls misbehaves
	FaultAt   int    // -1 = none
	FaultKind string // "error" | "empty" | "panic"
	Fired     bool
	// SlowDelay: how long a call hit by fault kind "slow" is held before it proceeds normally
	SlowDelay time.Duration
	// gate: if non-nil every Modify parks here until released
	Gate                       func(ctx context.Context, call CacheCall)
	PruneCreated, PruneApplied int
	// OnReadChEnd, if set, is called with the ordinal of the ReadCh call after its last element was handed over
	// and before the channel is closed (harness-owned placement of a cancellation between read and hand-over)
	OnReadChEnd func(ordinal int)
	readChCalls int
}

var ErrCacheInjected = fmt.Errorf("verif: injected cache failure")

// CrashSentinel is the panic value of the restart fault.
type CrashSentinel struct{ At string }

func NewCacheDeco(inner cache.Client) *CacheDeco {
	return &CacheDeco{Client: inner, FaultAt: -1}
}

func storeName(o *cache.Opts) string {
	if o == nil {
		return "CONFIG"
	}
	return cachepb.Store_name[int32(o.Store)]
}

// note records the call and tells whether it must misbehave.
func (d *CacheDeco) note(c CacheCall) (fault string) {
	d.mu.Lock()
	defer d.mu.Unlock()
	if !d.Record {
		return ""
	}
	idx := len(d.Calls)
	d.Calls = append(d.Calls, c)
	if d.FaultAt == idx && !d.Fired {
		d.Fired = true
		return d.FaultKind
	}
	return ""
}

func (d *CacheDeco) Reset() {
	d.mu.Lock()
	d.Calls = nil
	d.Fired = false
	d.FaultAt = -1
	d.mu.Unlock()
}

func (d *CacheDeco) CallList() []CacheCall {
	d.mu.Lock()
	defer d.mu.Unlock()
	return append([]CacheCall{}, d.Calls...)
}

func (d *CacheDeco) ModifyCount() int {
	n := 0
	for _, c := range d.CallList() {
		if c.Op == "Modify" {
			n++
		}
	}
	return n
}

func (d *CacheDeco) Modify(ctx context.Context, name string, opts *cache.Opts, dels [][]string, upds []*cache.Update) error {
	call := CacheCall{Op: "Modify", Store: storeName(opts), Dels: len(dels), Upds: len(upds)}
	switch d.note(call) {
	case "error", "empty":
		return ErrCacheInjected
	case "panic":
		panic(CrashSentinel{At: call.String()})
	case "slow":
		time.Sleep(d.SlowDelay)
	}
	if g := d.Gate; g != nil {
		g(ctx, call)
	}
	return d.Client.Modify(ctx, name, opts, dels, upds)
}

func (d *CacheDeco) CreatePruneID(ctx context.Context, name string, force bool) (string, error) {
	d.mu.Lock()
	d.PruneCreated++
	d.mu.Unlock()
	return d.Client.CreatePruneID(ctx, name, force)
}

func (d *CacheDeco) ApplyPrune(ctx context.Context, name, id string) error {
	err := d.Client.ApplyPrune(ctx, name, id)
	d.mu.Lock()
	d.PruneApplied++
	d.mu.Unlock()
	return err
}

func (d *CacheDeco) PruneCounts() (int, int) {
	d.mu.Lock()
	defer d.mu.Unlock()
	return d.PruneCreated, d.PruneApplied
}

func (d *CacheDeco) Read(ctx context.Context, name string, opts *cache.Opts, paths [][]string, period time.Duration) []*cache.Update {
	call := CacheCall{Op: "Read", Store: storeName(opts)}
	switch d.note(call) {
	case "error", "empty":
		return nil
	case "panic":
		panic(CrashSentinel{At: call.String()})
	case "slow":
		time.Sleep(d.SlowDelay)
	}
	return d.Client.Read(ctx, name, opts, paths, period)
}

func (d *CacheDeco) ReadCh(ctx context.Context, name string, opts *cache.Opts, paths [][]string, period time.Duration) chan *cache.Update {
	call := CacheCall{Op: "ReadCh", Store: storeName(opts)}
	switch d.note(call) {
	case "error", "empty":
		ch := make(chan *cache.Update)
		close(ch)
		return ch
	case "panic":
		panic(CrashSentinel{At: call.String()})
	case "slow":
		time.Sleep(d.SlowDelay)
	}
	in := d.Client.ReadCh(ctx, name, opts, paths, period)
	hook := d.OnReadChEnd
	if hook == nil {
		return in
	}
	d.mu.Lock()
	ord := d.readChCalls
	d.readChCalls++
	d.mu.Unlock()
	out := make(chan *cache.Update)
	go func() {
		defer close(out)
		for u := range in {
			select {
			case out <- u:
			case <-ctx.Done():
				for range in {
				}
				hook(ord)
				return
			}
		}
		hook(ord)
	}()
	return out
}

func (d *CacheDeco) GetKeys(ctx context.Context, name string, store cachepb.Store) (chan *cache.Update, error) {
	call := CacheCall{Op: "GetKeys", Store: cachepb.Store_name[int32(store)]}
	switch d.note(call) {
	case "error", "empty":
		return nil, ErrCacheInjected
	case "panic":
		panic(CrashSentinel{At: call.String()})
	case "slow":
		time.Sleep(d.SlowDelay)
	}
	return d.Client.GetKeys(ctx, name, store)
}
