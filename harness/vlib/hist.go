package vlib

import (
	"context"
	"encoding/json"
	"fmt"
	"github.com/sdcio/data-server/pkg/datastore/target"
	"os"
	"sort"
	"strconv"
	"strings"
	"time"

	"github.com/sdcio/cache/proto/cachepb"
	"github.com/sdcio/data-server/pkg/config"
	"github.com/sdcio/data-server/pkg/datastore"
	"github.com/sdcio/data-server/pkg/datastore/types"
	sdcpb "github.com/sdcio/sdc-protos/sdcpb"
	"pgregory.net/rapid"
)

// ---------------------------------------------------------------- universe

// Tmpl is a leaf (or presence container) template: a keyless schema path;
// list levels are filled with key values at resolution time.
type Tmpl struct {
	Path     string // "plain/l1/cfg/mode"
	NonAlpha bool   // lies in a list whose keys are declared non-alphabetically
	node     *Node
	names    []string
}

func T(path string) Tmpl {
	names := strings.Split(path, "/")
	n := Lookup(names...)
	if n == nil {
		panic("unknown template " + path)
	}
	t := Tmpl{Path: path, node: n, names: names}
	for x := n; x != nil; x = x.Parent {
		if x.Kind == KList {
			s := append([]string{}, x.Keys...)
			sort.Strings(s)
			if strings.Join(s, " ") != strings.Join(x.Keys, " ") {
				t.NonAlpha = true
			}
		}
	}
	return t
}

// KeyAlphabet are the string key values the generators draw from.
var KeyAlphabet = []string{"a", "b", "a/b", "a_b", "a b", "x:y", "k=v", "[z]", "eth1", "eth10", "c.d", "*", "cfg", "a+b", "(x|y)", "fe80::1", "^a$"} // cfg: also the name of a child container of l1

var numKeyValues = []string{"1", "2", "10"}

// identityref key values: identities of two modules (JSON_IETF spells them module:name)
var idKeyValues = []string{"red", "blue", "green"}

// ValueDomain returns the small value domain of a node (denotations).
func ValueDomain(n *Node) []string {
	if n.Kind == KContainer {
		return []string{""}
	}
	if len(n.Domain) > 0 && n.Kind == KLeaf {
		return n.Domain
	}
	var scalars []string
	t := n.Type
	if t == "leafref" {
		t = n.LeafrefTo
	}
	switch t {
	case "string":
		scalars = []string{"v1", "v2", "x y/z"}
	case "uint8":
		scalars = []string{"0", "7", "255"}
	case "uint16":
		scalars = []string{"1", "1500", "65535"}
	case "uint32":
		scalars = []string{"0", "7", "4294967295"}
	case "uint64":
		scalars = []string{"0", "7", "18446744073709551615"}
	case "int8":
		scalars = []string{"-128", "0", "127"}
	case "int16", "int32", "int64":
		scalars = []string{"-5", "0", "9"}
	case "boolean":
		scalars = []string{"true", "false", "true"}
	case "decimal64":
		scalars = []string{"1.5", "-0.05", "100", "0"}
	case "enumeration":
		scalars = []string{"one", "two", "three-3"}
		if len(n.Enums) > 0 {
			scalars = n.Enums
		}
	case "identityref":
		scalars = []string{"red", "green", "blue"}
	case "binary":
		scalars = []string{"AA==", "3q2+7w==", "AAEC"}
	case "bits":
		scalars = []string{"b0", "b0 b2", "b1"}
	case "union":
		scalars = []string{"5", "auto", "hello"}
	case "empty":
		scalars = []string{""}
	default:
		scalars = []string{"v1", "v2", "v3"}
	}
	if n.Kind == KLeafList {
		hi, two := len(scalars), 2
		if hi > 3 {
			hi = 3
		}
		if two > hi {
			two = hi
		}
		r := []string{LLDenotation(scalars[:1]), LLDenotation(scalars[:two]), LLDenotation(scalars[1:hi])}
		if t == "string" {
			// one element that reads like the first two joined by a comma
			r = append(r, LLDenotation([]string{scalars[0] + "," + scalars[1]}))
		}
		return r
	}
	return scalars
}

// LeafSel selects one leaf instance and a value abstractly.
type LeafSel struct {
	T int   `json:"t"`
	K []int `json:"k,omitempty"` // one index per key of every list level, in path order / declared key order
	V int   `json:"v"`
}

// Universe is a set of templates plus the per-case key palette.
type Universe struct {
	Name  string
	Tmpls []Tmpl
}

// Resolve turns a LeafSel into an instance path and denotation.
func (u *Universe) Resolve(sel LeafSel, palette []string) (IPath, string) {
	t := u.Tmpls[sel.T%len(u.Tmpls)]
	var p IPath
	n := Root
	ki := 0
	for _, nm := range t.names {
		n = n.Child(nm)
		pe := PE{Name: nm}
		if n.Kind == KList {
			pe.Keys = map[string]string{}
			for _, k := range n.Keys {
				idx := 0
				if ki < len(sel.K) {
					idx = sel.K[ki]
				}
				ki++
				kn := n.Child(k)
				if kn != nil && kn.Type == "identityref" {
					pe.Keys[k] = idKeyValues[idx%len(idKeyValues)]
				} else if kn != nil && kn.Type != "string" {
					pe.Keys[k] = numKeyValues[idx%len(numKeyValues)]
				} else {
					pe.Keys[k] = palette[idx%len(palette)]
				}
			}
		}
		p = append(p, pe)
	}
	dom := ValueDomain(t.node)
	return p, dom[sel.V%len(dom)]
}

func (u *Universe) numKeys(ti int) int {
	t := u.Tmpls[ti%len(u.Tmpls)]
	c := 0
	n := Root
	for _, nm := range t.names {
		n = n.Child(nm)
		if n.Kind == KList {
			c += len(n.Keys)
		}
	}
	return c
}

func tmpls(paths ...string) []Tmpl {
	r := make([]Tmpl, len(paths))
	for i, p := range paths {
		r[i] = T(p)
	}
	return r
}

// UniPlain: the unconstrained subtree, lists with alphabetical key order only.
var UniPlain = &Universe{Name: "plain", Tmpls: tmpls(
	"plain/descr", "plain/descr-long", "plain/a", "plain/a_b", "plain/num", "plain/flag", "plain/defleaf",
	"plain/tags", "plain/pres", "plain/pres/inner", "plain/sub/x", "plain/sub/y", "plain/extleaf",
	"plain/extc/e1", "plain/extc/e2",
	"plain/l1/descr", "plain/l1/descr-long", "plain/l1/mtu", "plain/l1/defmtu", "plain/l1/tags",
	"plain/l1/cfg/mode", "plain/l1/cfg/pres", "plain/l1/extattr", "plain/l1/sub/v",
	"plain/l2a/v", "plain/l2a/w", "plain/l3a/v", "plain/ifc/v", "plain/ifc-ext/v",
	"plain/l1/descr", "plain/l1/mtu", "plain/l2a/v", // weight
	"plain/dc/dflt", "plain/dc/other", "plain/dc/in/z",
	"plain/l1/cfg/descr",
	"plain/il/v", "plain/il/w",
)}

// UniPlainNA adds the lists whose keys are declared in non-alphabetical order. (Templates are only ever
// appended, stored cases address them by index.)
var UniPlainNA = &Universe{Name: "plain+nonalpha", Tmpls: append(append(append([]Tmpl{}, UniPlain.Tmpls[:len(UniPlain.Tmpls)-6]...), tmpls(
	"plain/l2z/v", "plain/l3/v", "plain/l2z/v", "plain/l3/v")...), UniPlain.Tmpls[len(UniPlain.Tmpls)-6:]...)}

// UniChoice: the choice subtree plus two plain leaves.
var UniChoice = &Universe{Name: "choice", Tmpls: tmpls(
	"chc/ca", "chc/ca2", "chc/cb", "chc/cbc/x", "chc/cl", "chc/ca-x", "chc/ca_x", "chc/other",
	"chc/ce/ia", "chc/ce/ib", "chc/ce/ib2", "chc/ce/ia-x", "chc/ce/pv",
	"chc/nest/oi/na", "chc/nest/oi/nb", "chc/nest/oi/oil", "chc/nest/o1l", "chc/nest/oc",
	"plain/descr", "plain/l1/descr",
	"chc/cb-x/v", "chc/cl-more/v",
	"chc/cbp", "chc/cbp/y", "chc/nest/oi/nb2",
)}

// UniChoiceNoList: as UniChoice without the choice members inside list entries.
var UniChoiceNoList = &Universe{Name: "choice-nolist", Tmpls: tmpls(
	"chc/ca", "chc/ca2", "chc/cb", "chc/cbc/x", "chc/cl", "chc/ca-x", "chc/ca_x", "chc/other",
	"chc/ce/ia-x", "chc/ce/pv",
	"chc/nest/oi/na", "chc/nest/oi/nb", "chc/nest/oi/oil", "chc/nest/o1l", "chc/nest/oc",
	"plain/descr", "plain/l1/descr",
	"chc/cb-x/v", "chc/cl-more/v",
	"chc/cbp", "chc/cbp/y", "chc/nest/oi/nb2",
)}

var Universes = map[string]*Universe{"plain": UniPlain, "plain+nonalpha": UniPlainNA, "choice": UniChoice, "choice-nolist": UniChoiceNoList}

// ---------------------------------------------------------------- case

type IntentOp struct {
	Owner  int       `json:"owner"`          // slot
	Kind   string    `json:"kind"`           // set | delete | orphan
	PrioIx int       `json:"prio_ix"`        // abstract priority choice, resolved against live owners
	Keep   bool      `json:"keep,omitempty"` // set: keep the owner's current priority if it is live
	Leaves []LeafSel `json:"leaves,omitempty"`
	Frags  []int     `json:"frags,omitempty"` // indices into vlib.Fragments (constraint subtree content)
	Form   string    `json:"form,omitempty"`  // typed | string | json
}

type Step struct {
	Intents []IntentOp `json:"intents"`
	// Drift (only honoured by checks that say so): before the step the device loses these leaves behind the server's
	// back and a sync removes them from the running store (indices into the sorted non-key leaf paths the device holds;
	// -1 = all of them)
	Drift []int `json:"drift,omitempty"`
}

// (HistCase.GNMI: "" or the encoding of a real gNMI target that receives every change next to the recording device)
type HistCase struct {
	GNMI string `json:"gnmi,omitempty"`
	// Loop (with GNMI): closed loop - the real gnmiTarget also runs its on-change sync against the gNMI device, the
	// running store is what the real sync loop makes of the device's reports
	Loop     bool      `json:"loop,omitempty"`
	Universe string    `json:"universe"`
	Palette  []string  `json:"palette"`
	Initial  []LeafSel `json:"initial,omitempty"`
	Steps    []Step    `json:"steps"`
	// InitDropKeyLeaves: the device did not report some key leaves of the initial running configuration
	// (indices into the sorted list of its key-leaf paths)
	InitDropKeyLeaves []int `json:"init_drop_key_leaves,omitempty"`
}

var PrioPool = []int32{5, 10, 11, 20, 50, 100, 1000, 65000, 1000000, 7}

const NumOwners = 4

func OwnerName(slot int) string { return fmt.Sprintf("own%d", slot) }

// GenLeafSels draws 0..max leaf selections.
func GenLeafSels(t *rapid.T, u *Universe, min, max int, label string) []LeafSel {
	n := rapid.IntRange(min, max).Draw(t, label+"-n")
	sels := make([]LeafSel, 0, n)
	for i := 0; i < n; i++ {
		ti := rapid.IntRange(0, len(u.Tmpls)-1).Draw(t, label+"-t")
		nk := u.numKeys(ti)
		var ks []int
		for j := 0; j < nk; j++ {
			ks = append(ks, rapid.IntRange(0, 2).Draw(t, label+"-k"))
		}
		// (most domains have three values; the fourth draw reaches the extra value of the larger ones)
		v := rapid.IntRange(0, 3).Draw(t, label+"-v")
		sels = append(sels, LeafSel{T: ti, K: ks, V: v})
	}
	return sels
}

func GenPalette(t *rapid.T) []string {
	// three distinct key values; biased to include separator characters
	perm := rapid.Permutation(KeyAlphabet).Draw(t, "palette")
	// now and then three values of which two pairs read the same once joined by a separator character
	// (entry [x/y, x] next to entry [x, y/x])
	if cp := rapid.SampledFrom([]int{0, 0, 0, 0, 0, 0, 0, 1, 2, 3}).Draw(t, "colliding-palette"); cp > 0 {
		sep := []string{"/", " ", "_"}[cp-1]
		return []string{"a", "a" + sep + "b", "b" + sep + "a"}
	}
	return append([]string{}, perm[:3]...)
}

type HistGenOpts struct {
	Universe    *Universe
	MaxSteps    int
	MinSteps    int
	WithInit    bool
	Forms       []string
	AllowOrphan bool
}

func GenIntentOp(t *rapid.T, o HistGenOpts, owner int) IntentOp {
	kinds := []string{"set", "set", "set", "set", "set", "delete"}
	if o.AllowOrphan {
		kinds = append(kinds, "orphan")
	}
	op := IntentOp{Owner: owner}
	op.Kind = rapid.SampledFrom(kinds).Draw(t, "kind")
	op.PrioIx = rapid.IntRange(0, len(PrioPool)-1).Draw(t, "prio")
	op.Keep = rapid.IntRange(0, 3).Draw(t, "keepprio") != 0
	if op.Kind == "set" {
		op.Leaves = GenLeafSels(t, o.Universe, 1, 6, "leaf")
		forms := o.Forms
		if len(forms) == 0 {
			forms = []string{"typed", "string", "json", "json_ietf", "mixed", "mixed_ietf"}
		}
		op.Form = rapid.SampledFrom(forms).Draw(t, "form")
	}
	return op
}

func GenStep(t *rapid.T, o HistGenOpts) Step {
	n := rapid.SampledFrom([]int{1, 1, 1, 2, 2, 3}).Draw(t, "nintents")
	owners := rapid.Permutation([]int{0, 1, 2, 3}).Draw(t, "owners")
	st := Step{}
	for i := 0; i < n; i++ {
		st.Intents = append(st.Intents, GenIntentOp(t, o, owners[i]))
	}
	return st
}

func GenHistCase(t *rapid.T, o HistGenOpts) *HistCase {
	c := &HistCase{Universe: o.Universe.Name, Palette: GenPalette(t)}
	scenario := o.WithInit && o.MaxSteps >= 2 && rapid.IntRange(0, 6).Draw(t, "lone-unmanaged-scenario") == 0
	if scenario {
		// a lone unmanaged leaf outside every list (often one that has a schema default) is all the running
		// configuration holds in its subtree; an owner then adds siblings near it and takes them away again
		var lone, dflt []int
		for i, tm := range o.Universe.Tmpls {
			inList := false
			n := Root
			for _, nm := range tm.names {
				n = n.Child(nm)
				if n.Kind == KList {
					inList = true
				}
			}
			if !inList && n.Choice == "" {
				lone = append(lone, i)
				if n.Default != "" {
					dflt = append(dflt, i)
				}
			}
		}
		if len(lone) > 0 {
			pick := lone
			if len(dflt) > 0 && rapid.Bool().Draw(t, "lone-defaulted") {
				pick = dflt
			}
			li := rapid.SampledFrom(pick).Draw(t, "lone-t")
			c.Initial = []LeafSel{{T: li, V: rapid.IntRange(0, 2).Draw(t, "lone-v")}}
			owner := rapid.IntRange(0, NumOwners-1).Draw(t, "lone-owner")
			var sib []LeafSel
			for i, n := 0, rapid.IntRange(1, 3).Draw(t, "lone-nsib"); i < n; i++ {
				si := rapid.SampledFrom(lone).Draw(t, "lone-sib")
				if si != li || rapid.IntRange(0, 3).Draw(t, "lone-same") == 0 {
					sib = append(sib, LeafSel{T: si, V: rapid.IntRange(0, 2).Draw(t, "lone-sv")})
				}
			}
			if len(sib) == 0 {
				sib = GenLeafSels(t, o.Universe, 1, 2, "lone-any")
			}
			form := "typed"
			if len(o.Forms) > 0 {
				form = o.Forms[0]
			}
			c.Steps = append(c.Steps, Step{Intents: []IntentOp{{Owner: owner, Kind: "set", PrioIx: rapid.IntRange(0, len(PrioPool)-1).Draw(t, "prio"), Leaves: sib, Form: form}}})
			end := IntentOp{Owner: owner, Kind: "delete", Keep: true}
			if rapid.IntRange(0, 2).Draw(t, "lone-shrink") == 0 {
				end = IntentOp{Owner: owner, Kind: "set", Keep: true, Leaves: GenLeafSels(t, o.Universe, 1, 2, "lone-rest"), Form: form}
			}
			c.Steps = append(c.Steps, Step{Intents: []IntentOp{end}})
		}
	} else if o.WithInit && rapid.IntRange(0, 2).Draw(t, "hasinit") != 0 {
		c.Initial = GenLeafSels(t, o.Universe, 1, 8, "init")
	}
	min := o.MinSteps - len(c.Steps)
	if min < 0 {
		min = 0
	}
	max := o.MaxSteps - len(c.Steps)
	if max < min {
		max = min
	}
	ns := rapid.IntRange(min, max).Draw(t, "nsteps")
	for i := 0; i < ns; i++ {
		c.Steps = append(c.Steps, GenStep(t, o))
	}
	if collidingPalette(c.Palette) && rapid.Bool().Draw(t, "colliding-entries") {
		// two entries of a multi-key list whose key values read the same once joined: [x.y, x] and [x, y.x]
		var multi []int
		for i, tm := range o.Universe.Tmpls {
			lists, keys := 0, 0
			n := Root
			for _, nm := range tm.names {
				n = n.Child(nm)
				if n.Kind == KList {
					lists++
					keys = len(n.Keys)
				}
			}
			if lists == 1 && keys >= 2 {
				multi = append(multi, i)
			}
		}
		var sets []*IntentOp
		for si := range c.Steps {
			for ii := range c.Steps[si].Intents {
				if c.Steps[si].Intents[ii].Kind == "set" {
					sets = append(sets, &c.Steps[si].Intents[ii])
				}
			}
		}
		if len(multi) > 0 && len(sets) > 0 {
			ti := rapid.SampledFrom(multi).Draw(t, "colliding-t")
			a := sets[rapid.IntRange(0, len(sets)-1).Draw(t, "colliding-op-a")]
			b := a
			if rapid.IntRange(0, 2).Draw(t, "colliding-two-ops") == 0 {
				b = sets[rapid.IntRange(0, len(sets)-1).Draw(t, "colliding-op-b")]
			}
			v1 := rapid.IntRange(0, 2).Draw(t, "colliding-v1")
			v2 := rapid.IntRange(0, 2).Draw(t, "colliding-v2")
			a.Leaves = append(a.Leaves, LeafSel{T: ti, K: []int{1, 0, 0}, V: v1})
			b.Leaves = append(b.Leaves, LeafSel{T: ti, K: []int{0, 2, 0}, V: v2})
		}
	}
	return c
}

func collidingPalette(p []string) bool {
	return len(p) == 3 && p[0] == "a" && len(p[1]) == 3 && len(p[2]) == 3 && p[1][0] == 'a' && p[2][0] == 'b' && p[1][1] == p[2][1] && p[1][2] == 'b' && p[2][2] == 'a'
}

// ---------------------------------------------------------------- model

type MIntent struct {
	Name   string
	Prio   int32
	Leaves Conf           // explicit leaves plus implied key leaves
	Req    ResolvedIntent // the request that created this version (for verbatim re-submission)
}

type Model struct {
	Intents  map[string]*MIntent
	Initial  Conf
	Ever     map[string]bool // leaf paths ever defined by an intent
	Touched  map[string]bool // list entries in which an intent ever defined a value
	Orphaned map[string]bool // paths whose last definer left by orphan-delete
}

func NewModel(initial Conf) *Model {
	return &Model{Intents: map[string]*MIntent{}, Initial: initial.Clone(), Ever: map[string]bool{}, Touched: map[string]bool{}, Orphaned: map[string]bool{}}
}

// WithImplied adds the key leaves implied by every path.
func WithImplied(c Conf) Conf {
	r := c.Clone()
	for k := range c {
		for _, kl := range MustCanon(k).ImpliedKeyLeaves() {
			r[kl.Path.Canon()] = kl.Value
		}
	}
	return r
}

// Merge: per path the value of the live intent with the lowest priority number.
func (m *Model) Merge() Conf {
	res := Conf{}
	best := map[string]int32{}
	for _, it := range m.sorted() {
		for p, v := range it.Leaves {
			if b, ok := best[p]; !ok || it.Prio < b {
				best[p] = it.Prio
				res[p] = v
			}
		}
	}
	return res
}

func (m *Model) sorted() []*MIntent {
	var r []*MIntent
	for _, it := range m.Intents {
		r = append(r, it)
	}
	sort.Slice(r, func(i, j int) bool { return r[i].Name < r[j].Name })
	return r
}

// Definers returns the live intents defining path p, best first.
func (m *Model) Definers(p string) []*MIntent {
	var r []*MIntent
	for _, it := range m.Intents {
		if _, ok := it.Leaves[p]; ok {
			r = append(r, it)
		}
	}
	sort.Slice(r, func(i, j int) bool { return r[i].Prio < r[j].Prio })
	return r
}

func (m *Model) noteDefined(c Conf) {
	for k := range c {
		m.Ever[k] = true
		delete(m.Orphaned, k)
		for _, e := range MustCanon(k).ListEntries() {
			m.Touched[e.Canon()] = true
		}
	}
}

// ResolvedIntent is an IntentOp resolved against the model state.
type ResolvedIntent struct {
	Name     string `json:"name"`
	Kind     string `json:"kind"`
	Prio     int32  `json:"prio"`
	Explicit Conf   `json:"explicit,omitempty"` // what the request carries
	Leaves   Conf   `json:"-"`                  // with implied key leaves
	Form     string `json:"form,omitempty"`
	Existed  bool   `json:"existed"`
}

// ResolveStep turns abstract ops into concrete requests given the model.
func (m *Model) ResolveStep(u *Universe, palette []string, st Step) []ResolvedIntent {
	var res []ResolvedIntent
	// priorities are pairwise distinct among owners, also against the old
	// priority of owners that are changed or deleted in this very step
	used := map[int32]string{}
	for name, it := range m.Intents {
		used[it.Prio] = name
	}
	free := func(p int32, name string) bool { o, taken := used[p]; return !taken || o == name }
	seenOwner := map[string]bool{}
	for _, op := range st.Intents {
		name := OwnerName(op.Owner)
		if seenOwner[name] {
			continue
		}
		seenOwner[name] = true
		cur, existed := m.Intents[name]
		ri := ResolvedIntent{Name: name, Kind: op.Kind, Form: op.Form, Existed: existed}
		if existed && (op.Keep || op.Kind != "set") {
			ri.Prio = cur.Prio
		} else {
			for i := 0; i < len(PrioPool); i++ {
				cand := PrioPool[(op.PrioIx+i)%len(PrioPool)]
				if free(cand, name) {
					ri.Prio = cand
					break
				}
			}
		}
		used[ri.Prio] = name
		if op.Kind == "set" {
			ri.Explicit = Conf{}
			var order []string
			for _, sel := range op.Leaves {
				p, v := u.Resolve(sel, palette)
				k := p.Canon()
				if _, dup := ri.Explicit[k]; !dup {
					ri.Explicit[k] = v
					order = append(order, k)
				}
			}
			for _, fi := range op.Frags {
				fr := Fragments[fi%len(Fragments)]
				for _, k := range fr.Leaves.SortedKeys() {
					if _, dup := ri.Explicit[k]; !dup {
						ri.Explicit[k] = fr.Leaves[k]
						order = append(order, k)
					}
				}
			}
			ri.Explicit = FilterOneCasePerChoice(order, ri.Explicit)
			ri.Leaves = WithImplied(ri.Explicit)
		}
		res = append(res, ri)
	}
	return res
}

// StepEffect summarises what a step did to the model (for labels).
type StepEffect struct {
	WinnerChanged    bool // some path defined by >= 2 live owners changed its winner
	ShadowerRemoved  bool // an owner that shadowed another was removed / re-prioritised / shrunk
	ThirdActivated   bool // a path's new winner was third-ranked or lower before
	Reprioritised    bool
	ShadowedModified bool // a changed/deleted intent had >= 1 shadowed path
	LostLast         []string
	Labels           []string
}

// Apply updates the model with the resolved intents of a successful step.
func (m *Model) Apply(ris []ResolvedIntent) StepEffect {
	eff := StepEffect{}
	before := m.Merge()
	beforeRank := map[string][]string{}
	for p := range before {
		for _, d := range m.Definers(p) {
			beforeRank[p] = append(beforeRank[p], d.Name)
		}
	}
	lab := map[string]bool{}
	if len(ris) > 1 {
		lab["multi-intent-tx"] = true
	}
	var orphanCand []string
	for _, ri := range ris {
		cur, existed := m.Intents[ri.Name]
		if existed {
			for p := range cur.Leaves {
				ds := m.Definers(p)
				if len(ds) > 1 && ds[0].Name != ri.Name {
					eff.ShadowedModified = true
				}
				if len(ds) > 1 && ds[0].Name == ri.Name {
					if ri.Kind != "set" || ri.Prio != cur.Prio {
						eff.ShadowerRemoved = true
					} else if _, still := ri.Leaves[p]; !still {
						eff.ShadowerRemoved = true
					}
				}
			}
		}
		switch ri.Kind {
		case "set":
			if existed && cur.Prio != ri.Prio {
				eff.Reprioritised = true
				lab["re-prioritise"] = true
			}
			if existed {
				shr := false
				for p := range cur.Leaves {
					if _, ok := ri.Leaves[p]; !ok {
						shr = true
					}
				}
				if shr {
					lab["shrink"] = true
				}
				lab["replace-intent"] = true
			} else {
				lab["create-intent"] = true
			}
			m.Intents[ri.Name] = &MIntent{Name: ri.Name, Prio: ri.Prio, Leaves: ri.Leaves.Clone(), Req: ri}
			m.noteDefined(ri.Leaves)
			lab["form-"+ri.Form] = true
		case "delete":
			if existed {
				lab["delete-intent"] = true
				delete(m.Intents, ri.Name)
			} else {
				lab["delete-nonexistent"] = true
			}
		case "orphan":
			if existed {
				lab["orphan-intent"] = true
				delete(m.Intents, ri.Name)
				for p := range cur.Leaves {
					orphanCand = append(orphanCand, p)
				}
			} else {
				lab["orphan-nonexistent"] = true
			}
		}
	}
	// a path whose definers are all gone after this step, one of them by
	// orphan-delete, is unconstrained until it is defined again
	for _, p := range orphanCand {
		if len(m.Definers(p)) == 0 {
			m.Orphaned[p] = true
		}
	}
	after := m.Merge()
	for p, rank := range beforeRank {
		if len(rank) >= 2 {
			ds := m.Definers(p)
			if len(ds) == 0 || ds[0].Name != rank[0] {
				eff.WinnerChanged = true
				if len(ds) > 0 {
					for i, nm := range rank {
						if nm == ds[0].Name && i >= 2 {
							eff.ThirdActivated = true
						}
					}
				}
			}
		}
		if _, ok := after[p]; !ok {
			eff.LostLast = append(eff.LostLast, p)
		}
	}
	for p := range after {
		if len(beforeRank[p]) >= 1 && len(m.Definers(p)) >= 2 {
			if m.Definers(p)[0].Name != beforeRank[p][0] {
				eff.WinnerChanged = true
			}
		}
	}
	if eff.WinnerChanged {
		lab["winner-changed"] = true
	}
	if eff.ShadowerRemoved {
		lab["shadower-removed"] = true
	}
	if eff.ThirdActivated {
		lab["third-activated"] = true
	}
	if eff.ShadowedModified {
		lab["shadowed-intent-modified"] = true
	}
	for l := range lab {
		eff.Labels = append(eff.Labels, l)
	}
	sort.Strings(eff.Labels)
	return eff
}

// ---------------------------------------------------------------- requests

// jsonDoc builds a JSON document for the given explicit leaves, rooted at root.
func jsonDoc(leaves Conf, ietf bool) (map[string]any, error) {
	doc := map[string]any{}
	for _, k := range leaves.SortedKeys() {
		p := MustCanon(k)
		if p.IsKeyLeaf() {
			continue // keys are emitted with their list entry
		}
		cur := doc
		n := Root
		for i, e := range p {
			parent := n
			n = n.Child(e.Name)
			if n == nil {
				return nil, fmt.Errorf("no node %s", k)
			}
			name := e.Name
			if ietf && (parent == Root || parent.Module != n.Module) {
				name = n.Module + ":" + e.Name
			}
			last := i == len(p)-1
			switch {
			case n.Kind == KList:
				arr, _ := cur[name].([]any)
				var entry map[string]any
				for _, x := range arr {
					m := x.(map[string]any)
					match := true
					for kn, kv := range e.Keys {
						if fmt.Sprint(m[kn]) != kv {
							match = false
						}
					}
					if match {
						entry = m
					}
				}
				if entry == nil {
					entry = map[string]any{}
					for kn, kv := range e.Keys {
						entry[kn] = jsonScalar(n.Child(kn), kv, ietf)
					}
					arr = append(arr, entry)
					cur[name] = arr
				}
				cur = entry
			case last && n.Kind == KLeaf:
				cur[name] = jsonScalar(n, leaves[k], ietf)
			case last && n.Kind == KLeafList:
				var arr []any
				for _, el := range ParseLL(leaves[k]) {
					arr = append(arr, jsonScalarT(nodeScalarType(n), el, ietf))
				}
				cur[name] = arr
			default: // container (possibly presence, possibly last)
				sub, _ := cur[name].(map[string]any)
				if sub == nil {
					sub = map[string]any{}
					cur[name] = sub
				}
				cur = sub
			}
		}
	}
	// bare list entries (only key leaves defined)
	for _, k := range leaves.SortedKeys() {
		p := MustCanon(k)
		if !p.IsKeyLeaf() {
			continue
		}
		entry := p[:len(p)-1]
		has := false
		for k2 := range leaves {
			q := MustCanon(k2)
			if !q.IsKeyLeaf() && entry.IsStrictAncestorOf(q) {
				has = true
			}
		}
		if !has {
			return nil, fmt.Errorf("bare entry not supported in json form")
		}
	}
	return doc, nil
}

func jsonScalar(n *Node, den string, ietf bool) any {
	if n == nil {
		return den
	}
	return jsonScalarT(nodeScalarType(n), den, ietf)
}

// JSONScalar / JSONElem: the JSON value of a leaf (an element of a leaf-list) of node n as a document carries it.
func JSONScalar(n *Node, den string, ietf bool) any { return jsonScalar(n, den, ietf) }
func JSONElem(n *Node, el string, ietf bool) any    { return jsonScalarT(nodeScalarType(n), el, ietf) }

func jsonScalarT(st scalarType, den string, ietf bool) any {
	t := st.Type
	if t == "leafref" {
		t = st.LeafrefTo
	}
	switch t {
	case "int8", "int16", "int32", "uint8", "uint16", "uint32":
		return json.Number(den)
	case "int64", "uint64", "decimal64":
		if ietf {
			return den // RFC 7951: 64-bit numbers and decimal64 are strings
		}
		return json.Number(den)
	case "boolean":
		return den == "true"
	case "empty":
		if ietf {
			return []any{nil}
		}
		return map[string]any{}
	case "identityref":
		if ietf {
			return Identities[den] + ":" + den
		}
		return den
	}
	return den
}

// BuildIntentRequest renders a resolved intent in its input form.
// JSONLeafValue renders the JSON value (RFC 7951 style with ietf) of one leaf / leaf-list as it would appear in a document.
func JSONLeafValue(p IPath, den string, ietf bool) ([]byte, error) {
	doc, err := jsonDoc(Conf{p.Canon(): den}, ietf)
	if err != nil {
		return nil, err
	}
	var cur any = doc
	for cur != nil {
		m, ok := cur.(map[string]any)
		if !ok || len(m) != 1 {
			break
		}
		for _, v := range m {
			cur = v
		}
	}
	return json.Marshal(cur)
}

func BuildIntentRequest(ri ResolvedIntent) (*sdcpb.TransactionIntent, error) {
	req := &sdcpb.TransactionIntent{Intent: ri.Name, Priority: ri.Prio}
	switch ri.Kind {
	case "delete":
		req.Delete = true
		return req, nil
	case "orphan":
		req.Delete = true
		req.Orphan = true
		return req, nil
	}
	if ri.Form == "mixed" || ri.Form == "mixed_ietf" {
		// several updates in one intent: every other leaf as a typed update addressed by its path, the rest in one
		// JSON document at the root (both can reach the same list entry)
		typed, doc := Conf{}, Conf{}
		for i, k := range ri.Explicit.SortedKeys() {
			if MustCanon(k).IsKeyLeaf() {
				continue
			}
			if i%2 == 0 {
				typed[k] = ri.Explicit[k]
			} else {
				doc[k] = ri.Explicit[k]
			}
			if i%3 == 0 {
				// named twice, with the same value: by path and inside the document
				typed[k], doc[k] = ri.Explicit[k], ri.Explicit[k]
			}
		}
		a, err := BuildIntentRequest(ResolvedIntent{Name: ri.Name, Kind: ri.Kind, Prio: ri.Prio, Explicit: typed, Form: "typed"})
		if err != nil {
			return nil, err
		}
		if len(doc) > 0 {
			form := "json"
			if ri.Form == "mixed_ietf" {
				form = "json_ietf"
			}
			b, err := BuildIntentRequest(ResolvedIntent{Name: ri.Name, Kind: ri.Kind, Prio: ri.Prio, Explicit: doc, Form: form})
			if err != nil {
				return nil, err
			}
			a.Update = append(a.Update, b.Update...)
		}
		return a, nil
	}
	switch ri.Form {
	case "json", "json_ietf":
		doc, err := jsonDoc(ri.Explicit, ri.Form == "json_ietf")
		if err != nil {
			return nil, err
		}
		b, err := json.Marshal(doc)
		if err != nil {
			return nil, err
		}
		tv := &sdcpb.TypedValue{Value: &sdcpb.TypedValue_JsonVal{JsonVal: b}}
		if ri.Form == "json_ietf" {
			tv = &sdcpb.TypedValue{Value: &sdcpb.TypedValue_JsonIetfVal{JsonIetfVal: b}}
		}
		req.Update = []*sdcpb.Update{{Path: &sdcpb.Path{}, Value: tv}}
		return req, nil
	}
	for _, k := range ri.Explicit.SortedKeys() {
		p := MustCanon(k)
		n := p.Node()
		var tv *sdcpb.TypedValue
		if ri.Form == "string" {
			tv = StringTVFromDenotation(n, ri.Explicit[k])
		} else {
			tv = TVFromDenotation(n, ri.Explicit[k])
		}
		req.Update = append(req.Update, &sdcpb.Update{Path: p.Sdcpb(), Value: tv})
	}
	return req, nil
}

// ---------------------------------------------------------------- execution

type HistEnv struct {
	// NextTxID: the id of the next submitted transaction (consumed by it); "" = tx<n>
	NextTxID string
	Env      *Env
	Ctx      context.Context
	DS       *datastore.Datastore
	DSName   string
	Dev      *Device
	Model    *Model
	Uni      *Universe
	Palette  []string
	txn      int
	Timeout  time.Duration
}

type HistEnvOpts struct {
	Validation *config.Validation
	DS         DSOpts
	// WrapTarget, if set, supplies the southbound target the datastore talks
	// to (it is expected to forward successful changes to the device).
	WrapTarget func(dev *Device) target.Target
}

// NewHistEnv builds a fresh datastore + device for a case and installs the
// initial running configuration in both the CONFIG store and the device.
func NewHistEnv(ctx context.Context, env *Env, c *HistCase, o HistEnvOpts) (*HistEnv, error) {
	u := Universes[c.Universe]
	if u == nil {
		return nil, fmt.Errorf("unknown universe %q", c.Universe)
	}
	init := Conf{}
	var order []string
	for _, sel := range c.Initial {
		p, v := u.Resolve(sel, c.Palette)
		if _, dup := init[p.Canon()]; !dup {
			init[p.Canon()] = v
			order = append(order, p.Canon())
		}
	}
	// a valid running configuration holds at most one case per choice
	init = WithImplied(FilterOneCasePerChoice(order, init))
	if len(c.InitDropKeyLeaves) > 0 {
		var kl []string
		for _, k := range init.SortedKeys() {
			if MustCanon(k).IsKeyLeaf() {
				kl = append(kl, k)
			}
		}
		for _, i := range c.InitDropKeyLeaves {
			if len(kl) > 0 {
				delete(init, kl[i%len(kl)])
			}
		}
	}
	dev := NewDevice(init)
	dso := o.DS
	if dso.Name == "" {
		dso.Name = env.FreshName("h")
	}
	if dso.Validation == nil {
		dso.Validation = o.Validation
	}
	var tgt target.Target = dev
	if o.WrapTarget != nil {
		tgt = o.WrapTarget(dev)
	}
	ds := env.NewDatastore(ctx, tgt, dso)
	cc := dso.Cache
	if cc == nil {
		cc = env.Cache
	}
	if len(init) > 0 {
		if err := WriteConfigStore(ctx, cc, dso.Name, init); err != nil {
			return nil, err
		}
	}
	return &HistEnv{Env: env, Ctx: ctx, DS: ds, DSName: dso.Name, Dev: dev, Model: NewModel(init), Uni: u, Palette: c.Palette, Timeout: time.Hour}, nil
}

type StepResult struct {
	Resolved       []ResolvedIntent
	Rsp            *sdcpb.TransactionSetResponse
	Err            error
	IntentErrors   map[string][]string
	OK             bool
	TxID           string
	Effect         StepEffect
	DevCallsBefore int
}

func (r *StepResult) ErrText() string {
	if r.Err != nil {
		return r.Err.Error()
	}
	var s []string
	for n, e := range r.IntentErrors {
		s = append(s, n+": "+strings.Join(e, "; "))
	}
	sort.Strings(s)
	return strings.Join(s, " | ")
}

// SetRequest performs one TransactionSet exactly as the gRPC handler does.
func (h *HistEnv) SetRequest(txid string, reqs []*sdcpb.TransactionIntent, replace *sdcpb.TransactionIntent, dryRun bool) (*sdcpb.TransactionSetResponse, error) {
	tis := make([]*types.TransactionIntent, 0, len(reqs))
	for _, r := range reqs {
		ti, err := h.DS.SdcpbTransactionIntentToInternalTI(h.Ctx, r)
		if err != nil {
			return nil, err
		}
		tis = append(tis, ti)
	}
	var rti *types.TransactionIntent
	if replace != nil {
		var err error
		rti, err = h.DS.SdcpbTransactionIntentToInternalTI(h.Ctx, replace)
		if err != nil {
			return nil, err
		}
	}
	// a wedged transaction slot makes TransactionSet spin until its context
	// ends; bound it so that the harness never hangs on that
	ctx, cancel := context.WithTimeout(h.Ctx, 15*time.Second)
	defer cancel()
	return h.DS.TransactionSet(ctx, txid, tis, rti, h.Timeout, dryRun)
}

// FreeSlot releases the transaction slot after a non-success outcome without
// asserting anything (what those outcomes leave behind is C06's subject).
func (h *HistEnv) FreeSlot(txid string) bool {
	if _, open, _ := h.DS.VerifPeekTransaction(); !open {
		return true
	}
	_ = h.DS.TransactionCancel(h.Ctx, txid)
	_ = h.DS.TransactionConfirm(h.Ctx, txid)
	_, open, _ := h.DS.VerifPeekTransaction()
	return !open
}

func IntentErrorsOf(rsp *sdcpb.TransactionSetResponse) map[string][]string {
	res := map[string][]string{}
	for n, ir := range rsp.GetIntents() {
		if len(ir.GetErrors()) > 0 {
			res[n] = ir.GetErrors()
		}
	}
	return res
}

// SubmitStep resolves and submits one step without confirming it; the model is
// not updated (use CommitModel after a confirm).
func (h *HistEnv) SubmitStep(st Step) *StepResult {
	res := &StepResult{DevCallsBefore: h.Dev.Calls()}
	res.Resolved = h.Model.ResolveStep(h.Uni, h.Palette, st)
	h.txn++
	res.TxID = "tx" + strconv.Itoa(h.txn)
	if h.NextTxID != "" {
		// a client that recycles transaction ids
		res.TxID, h.NextTxID = h.NextTxID, ""
	}
	var reqs []*sdcpb.TransactionIntent
	for _, ri := range res.Resolved {
		r, err := BuildIntentRequest(ri)
		if err != nil {
			res.Err = fmt.Errorf("harness: %w", err)
			return res
		}
		reqs = append(reqs, r)
	}
	res.Rsp, res.Err = h.SetRequest(res.TxID, reqs, nil, false)
	if res.Err != nil {
		return res
	}
	res.IntentErrors = IntentErrorsOf(res.Rsp)
	if len(res.IntentErrors) > 0 {
		h.FreeSlot(res.TxID)
		return res
	}
	res.OK = true
	return res
}

// ApplyDrift performs the device-side loss a step asks for; returns the paths that went away.
func (h *HistEnv) ApplyDrift(st Step) []string {
	if len(st.Drift) == 0 {
		return nil
	}
	var cand []string
	for _, k := range h.Dev.Snapshot().SortedKeys() {
		if !MustCanon(k).IsKeyLeaf() {
			cand = append(cand, k)
		}
	}
	pick := map[string]bool{}
	for _, i := range st.Drift {
		if i < 0 {
			for _, k := range cand {
				pick[k] = true
			}
		} else if len(cand) > 0 {
			pick[cand[i%len(cand)]] = true
		}
	}
	var gone []string
	var paths []IPath
	for _, k := range cand {
		if pick[k] {
			gone = append(gone, k)
			paths = append(paths, MustCanon(k))
			h.Dev.Drop(MustCanon(k))
		}
	}
	// list entries that lost their last leaf go away with their keys
	left := h.Dev.Snapshot()
	for _, k := range left.SortedKeys() {
		p := MustCanon(k)
		if !p.IsKeyLeaf() {
			continue
		}
		entry := p[:len(p)-1]
		alive := false
		for o := range left {
			q := MustCanon(o)
			if !q.IsKeyLeaf() && entry.Covers(q) {
				alive = true
			}
		}
		if !alive {
			h.Dev.Drop(p)
			paths = append(paths, p)
		}
	}
	if err := DeleteFromStore(h.Ctx, h.Env.Cache, h.DSName, cachepb.Store_CONFIG, paths); err != nil {
		panic(err)
	}
	return gone
}

// ReapplyAll re-submits every live intent verbatim in one transaction and confirms it.
func (h *HistEnv) ReapplyAll(txid string) (*sdcpb.TransactionSetResponse, error) {
	var names []string
	for n := range h.Model.Intents {
		names = append(names, n)
	}
	sort.Strings(names)
	var reqs []*sdcpb.TransactionIntent
	for _, n := range names {
		r, err := BuildIntentRequest(h.Model.Intents[n].Req)
		if err != nil {
			return nil, fmt.Errorf("harness: %w", err)
		}
		reqs = append(reqs, r)
	}
	rsp, err := h.SetRequest(txid, reqs, nil, false)
	if err != nil {
		return nil, err
	}
	if ie := IntentErrorsOf(rsp); len(ie) > 0 {
		h.FreeSlot(txid)
		return rsp, fmt.Errorf("intent errors: %v", ie)
	}
	return rsp, h.DS.TransactionConfirm(h.Ctx, txid)
}

// RunStep resolves, submits and (on success) confirms one step and updates the model.
func (h *HistEnv) RunStep(st Step) *StepResult {
	res := h.SubmitStep(st)
	if !res.OK {
		return res
	}
	res.Effect = h.Model.Apply(res.Resolved)
	if os.Getenv("VERIF_DEBUG") != "" {
		var d []string
		for _, ri := range res.Resolved {
			d = append(d, fmt.Sprintf("%s %s prio=%d %s", ri.Kind, ri.Name, ri.Prio, JSON(ri.Explicit)))
		}
		fmt.Printf("DEBUG %s: %s\n  lastrec=%s\n  dev=%s\n", res.TxID, strings.Join(d, "; "), JSON(h.Dev.LastRecord()), JSON(h.Dev.Snapshot()))
	}
	if err := h.DS.TransactionConfirm(h.Ctx, res.TxID); err != nil {
		res.Err = fmt.Errorf("confirm: %w", err)
		res.OK = false
	}
	return res
}
