package vlib

import (
	"fmt"
	"sort"
	"strings"

	sdcpb "github.com/sdcio/sdc-protos/sdcpb"
)

// PE is one element of an instance path. Keys maps key-leaf name to value.
type PE struct {
	Name string            `json:"n"`
	Keys map[string]string `json:"k,omitempty"`
}

// IPath is a schema instance path from the root.
type IPath []PE

func P(elems ...any) IPath {
	// P("plain", "l1", K{"name","a"}, "descr")
	var p IPath
	for _, e := range elems {
		switch x := e.(type) {
		case string:
			p = append(p, PE{Name: x})
		case K:
			last := &p[len(p)-1]
			if last.Keys == nil {
				last.Keys = map[string]string{}
			}
			for i := 0; i+1 < len(x); i += 2 {
				last.Keys[x[i]] = x[i+1]
			}
		}
	}
	return p
}

// K is a flat list name, value, name, value ...
type K []string

func (p IPath) Clone() IPath {
	r := make(IPath, len(p))
	for i, e := range p {
		r[i].Name = e.Name
		if e.Keys != nil {
			r[i].Keys = make(map[string]string, len(e.Keys))
			for k, v := range e.Keys {
				r[i].Keys[k] = v
			}
		}
	}
	return r
}

func (p IPath) Append(name string) IPath {
	r := p.Clone()
	return append(r, PE{Name: name})
}

// Names returns the keyless schema names.
func (p IPath) Names() []string {
	r := make([]string, len(p))
	for i, e := range p {
		r[i] = e.Name
	}
	return r
}

// Node resolves the schema-table node (nil if unknown).
func (p IPath) Node() *Node { return Lookup(p.Names()...) }

func escKey(v string) string {
	v = strings.ReplaceAll(v, `\`, `\\`)
	v = strings.ReplaceAll(v, `]`, `\]`)
	return v
}

// Canon is the canonical, collision-free textual form used as a map key by
// the models: keys in the table's declared order (unknown lists: sorted).
func (p IPath) Canon() string {
	var sb strings.Builder
	n := Root
	for _, e := range p {
		sb.WriteByte('/')
		sb.WriteString(e.Name)
		if n != nil {
			n = n.Child(e.Name)
		}
		if len(e.Keys) > 0 {
			var order []string
			if n != nil && len(n.Keys) > 0 {
				seen := map[string]bool{}
				for _, k := range n.Keys {
					if _, ok := e.Keys[k]; ok {
						order = append(order, k)
						seen[k] = true
					}
				}
				var rest []string
				for k := range e.Keys {
					if !seen[k] {
						rest = append(rest, k)
					}
				}
				sort.Strings(rest)
				order = append(order, rest...)
			} else {
				for k := range e.Keys {
					order = append(order, k)
				}
				sort.Strings(order)
			}
			for _, k := range order {
				fmt.Fprintf(&sb, "[%s=%s]", k, escKey(e.Keys[k]))
			}
		}
	}
	if len(p) == 0 {
		return "/"
	}
	return sb.String()
}

func (p IPath) String() string { return p.Canon() }

// ParseCanon inverts Canon.
func ParseCanon(s string) (IPath, error) {
	var p IPath
	if s == "/" || s == "" {
		return p, nil
	}
	i := 0
	for i < len(s) {
		if s[i] != '/' {
			return nil, fmt.Errorf("bad canon path %q at %d", s, i)
		}
		i++
		j := i
		for j < len(s) && s[j] != '/' && s[j] != '[' {
			j++
		}
		pe := PE{Name: s[i:j]}
		i = j
		for i < len(s) && s[i] == '[' {
			i++
			j = i
			for j < len(s) && s[j] != '=' {
				j++
			}
			if j >= len(s) {
				return nil, fmt.Errorf("bad canon path %q", s)
			}
			k := s[i:j]
			i = j + 1
			var v strings.Builder
			for i < len(s) && s[i] != ']' {
				if s[i] == '\\' && i+1 < len(s) {
					i++
				}
				v.WriteByte(s[i])
				i++
			}
			if i >= len(s) {
				return nil, fmt.Errorf("bad canon path %q", s)
			}
			i++
			if pe.Keys == nil {
				pe.Keys = map[string]string{}
			}
			pe.Keys[k] = v.String()
		}
		p = append(p, pe)
	}
	return p, nil
}

func MustCanon(s string) IPath {
	p, err := ParseCanon(s)
	if err != nil {
		panic(err)
	}
	return p
}

// Sdcpb converts to the request representation.
func (p IPath) Sdcpb() *sdcpb.Path {
	r := &sdcpb.Path{Elem: make([]*sdcpb.PathElem, 0, len(p))}
	for _, e := range p {
		pe := &sdcpb.PathElem{Name: e.Name}
		if len(e.Keys) > 0 {
			pe.Key = map[string]string{}
			for k, v := range e.Keys {
				pe.Key[k] = v
			}
		}
		r.Elem = append(r.Elem, pe)
	}
	return r
}

func FromSdcpb(sp *sdcpb.Path) IPath {
	p := make(IPath, 0, len(sp.GetElem()))
	for _, e := range sp.GetElem() {
		pe := PE{Name: e.GetName()}
		if len(e.GetKey()) > 0 {
			pe.Keys = map[string]string{}
			for k, v := range e.GetKey() {
				pe.Keys[k] = v
			}
		}
		p = append(p, pe)
	}
	return p
}

// Equal is structural equality.
func (p IPath) Equal(q IPath) bool {
	if len(p) != len(q) {
		return false
	}
	for i := range p {
		if !peEqual(p[i], q[i]) {
			return false
		}
	}
	return true
}

func peEqual(a, b PE) bool {
	if a.Name != b.Name || len(a.Keys) != len(b.Keys) {
		return false
	}
	for k, v := range a.Keys {
		if bv, ok := b.Keys[k]; !ok || bv != v {
			return false
		}
	}
	return true
}

// peCovers: a (possibly with missing keys = wildcard) covers b.
func peCovers(a, b PE) bool {
	if a.Name != b.Name {
		return false
	}
	for k, v := range a.Keys {
		if bv, ok := b.Keys[k]; !ok || bv != v {
			return false
		}
	}
	return true
}

// Covers reports whether q lies at or below p structurally; missing keys in p
// act as wildcards (gNMI delete semantics).
func (p IPath) Covers(q IPath) bool {
	if len(p) > len(q) {
		return false
	}
	for i := range p {
		if !peCovers(p[i], q[i]) {
			return false
		}
	}
	return true
}

// IsStrictAncestorOf is structural (all keys must match exactly).
func (p IPath) IsStrictAncestorOf(q IPath) bool {
	if len(p) >= len(q) {
		return false
	}
	for i := range p {
		if !peEqual(p[i], q[i]) {
			return false
		}
	}
	return true
}

// ListEntries returns the prefixes of p that end in a fully keyed list element.
func (p IPath) ListEntries() []IPath {
	var r []IPath
	for i, e := range p {
		if len(e.Keys) > 0 {
			r = append(r, p[:i+1].Clone())
		}
	}
	return r
}

// ImpliedKeyLeaves returns for every list entry on p its key leaf paths and values.
func (p IPath) ImpliedKeyLeaves() []struct {
	Path  IPath
	Value string
} {
	var r []struct {
		Path  IPath
		Value string
	}
	for i, e := range p {
		if len(e.Keys) == 0 {
			continue
		}
		names := make([]string, 0, len(e.Keys))
		for k := range e.Keys {
			names = append(names, k)
		}
		sort.Strings(names)
		for _, k := range names {
			kp := p[:i+1].Clone()
			kp = append(kp, PE{Name: k})
			r = append(r, struct {
				Path  IPath
				Value string
			}{kp, e.Keys[k]})
		}
	}
	return r
}

// IsKeyLeaf tells whether p addresses a key leaf of its parent list entry.
func (p IPath) IsKeyLeaf() bool {
	if len(p) < 2 {
		return false
	}
	_, ok := p[len(p)-2].Keys[p[len(p)-1].Name]
	return ok
}

// Slice is the flattened internal element sequence with key values in the
// order given by keyOrder(listNode) — used to address the cache directly.
func (p IPath) Slice(sortedKeys bool) []string {
	var r []string
	n := Root
	for _, e := range p {
		r = append(r, e.Name)
		if n != nil {
			n = n.Child(e.Name)
		}
		if len(e.Keys) == 0 {
			continue
		}
		var order []string
		if !sortedKeys && n != nil && len(n.Keys) > 0 {
			order = n.Keys
		} else {
			for k := range e.Keys {
				order = append(order, k)
			}
			sort.Strings(order)
		}
		for _, k := range order {
			if v, ok := e.Keys[k]; ok {
				r = append(r, v)
			}
		}
	}
	return r
}
