// Package vlib is the shared machinery of the verification harness: the real
// collaborators (schema-server library, badger cache), the recording device, the
// schema table, reference models and evidence bookkeeping.
package vlib

import (
	"context"
	"fmt"
	"io"
	"os"
	"path/filepath"
	"sync"
	"sync/atomic"
	"time"

	cconfig "github.com/sdcio/cache/pkg/config"
	"github.com/sdcio/data-server/pkg/cache"
	"github.com/sdcio/data-server/pkg/config"
	"github.com/sdcio/data-server/pkg/datastore"
	"github.com/sdcio/data-server/pkg/datastore/target"
	dschema "github.com/sdcio/data-server/pkg/schema"
	sConfig "github.com/sdcio/schema-server/pkg/config"
	"github.com/sdcio/schema-server/pkg/schema"
	"github.com/sdcio/schema-server/pkg/store/memstore"
	sdcpb "github.com/sdcio/sdc-protos/sdcpb"
	log "github.com/sirupsen/logrus"
)

const (
	SchemaName    = "verif"
	SchemaVendor  = "verif"
	SchemaVersion = "1"
)

// Env holds the process-wide real collaborators.
type Env struct {
	SchemaClient dschema.Client
	Cache        cache.Client
	CacheDir     string
	counter      atomic.Int64
	cfgCache     *cconfig.CacheConfig
}

var (
	envOnce sync.Once
	envInst *Env
	envErr  error
)

// SchemaDir locates /verif/schema: VERIF_SCHEMA_DIR or relative to the harness.
func SchemaDir() string {
	if d := os.Getenv("VERIF_SCHEMA_DIR"); d != "" {
		return d
	}
	// tests run with cwd = package dir (/verif/harness/cNN)
	wd, _ := os.Getwd()
	for d := wd; d != "/" && d != "."; d = filepath.Dir(d) {
		cand := filepath.Join(d, "schema", "verif-main.yang")
		if _, err := os.Stat(cand); err == nil {
			return filepath.Join(d, "schema")
		}
	}
	return "/verif/schema"
}

// GetEnv returns the singleton environment (schema store + cache).
func GetEnv() (*Env, error) {
	envOnce.Do(func() {
		log.SetOutput(io.Discard)
		log.SetLevel(log.PanicLevel)
		if os.Getenv("VERIF_LOG") != "" {
			log.SetOutput(os.Stdout)
			log.SetLevel(log.ErrorLevel) // triage aid
		}
		envInst, envErr = newEnv()
	})
	return envInst, envErr
}

func MustEnv() *Env {
	e, err := GetEnv()
	if err != nil {
		fmt.Fprintf(os.Stderr, "HARNESS-ERROR env: %v\n", err)
		os.Exit(2)
	}
	return e
}

func newSchemaClient() (dschema.Client, error) {
	dir := SchemaDir()
	sc, err := schema.NewSchema(&sConfig.SchemaConfig{
		Name:    SchemaName,
		Vendor:  SchemaVendor,
		Version: SchemaVersion,
		Files:   []string{dir},
	})
	if err != nil {
		return nil, fmt.Errorf("load schema from %s: %w", dir, err)
	}
	ms := memstore.New()
	if err := ms.AddSchema(sc); err != nil {
		return nil, err
	}
	return dschema.NewLocalClient(ms), nil
}

func newEnv() (*Env, error) {
	scl, err := newSchemaClient()
	if err != nil {
		return nil, err
	}
	base := os.Getenv("VERIF_TMP")
	if base == "" {
		base = os.TempDir()
	}
	dir, err := os.MkdirTemp(base, "verif-cache-")
	if err != nil {
		return nil, err
	}
	cfg := &cconfig.CacheConfig{Dir: dir, StoreType: "badgerdb", MaxCaches: 1_000_000}
	cc, err := cache.NewLocalCache(cfg)
	if err != nil {
		return nil, fmt.Errorf("open cache: %w", err)
	}
	return &Env{SchemaClient: scl, Cache: cc, CacheDir: dir, cfgCache: cfg}, nil
}

// ReopenCache closes and reopens the cache over the same directory (restart model).
func (e *Env) ReopenCache() error {
	if err := e.Cache.Close(); err != nil {
		return err
	}
	cc, err := cache.NewLocalCache(e.cfgCache)
	if err != nil {
		return err
	}
	e.Cache = cc
	return nil
}

// Close releases the cache and removes its directory.
func (e *Env) Close() {
	if e == nil {
		return
	}
	_ = e.Cache.Close()
	_ = os.RemoveAll(e.CacheDir)
}

// FreshName returns a cache-instance / datastore name unique in this process.
func (e *Env) FreshName(prefix string) string {
	return fmt.Sprintf("%s%d", prefix, e.counter.Add(1))
}

func SchemaRef() *sdcpb.Schema {
	return &sdcpb.Schema{Name: SchemaName, Vendor: SchemaVendor, Version: SchemaVersion}
}

// DSOpts configures a datastore under test.
type DSOpts struct {
	Name       string
	Validation *config.Validation
	Sync       *config.Sync
	Schema     dschema.Client // default env.SchemaClient
	Cache      cache.Client   // default env.Cache
}

// NewDatastore builds a real Datastore around the given target via hook H1.
func (e *Env) NewDatastore(ctx context.Context, tgt target.Target, o DSOpts) *datastore.Datastore {
	if o.Name == "" {
		o.Name = e.FreshName("ds")
	}
	if o.Validation == nil {
		o.Validation = &config.Validation{}
	}
	if o.Schema == nil {
		o.Schema = e.SchemaClient
	}
	if o.Cache == nil {
		o.Cache = e.Cache
	}
	cfg := &config.DatastoreConfig{
		Name:       o.Name,
		Schema:     &config.SchemaConfig{Name: SchemaName, Vendor: SchemaVendor, Version: SchemaVersion},
		SBI:        &config.SBI{Type: "noop", Timeout: 5 * time.Second},
		Sync:       o.Sync,
		Validation: o.Validation,
	}
	return datastore.NewWithTarget(ctx, cfg, o.Schema, o.Cache, tgt)
}
