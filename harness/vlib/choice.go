package vlib

import "sort"

// choiceRef identifies one choice instance and the case a path lies in.
type choiceRef struct {
	Inst string // canonical container instance path + "#" + choice name
	Case string
}

// ChoiceRefs lists the choice instances p passes through, outermost first.
func ChoiceRefs(p IPath) []choiceRef {
	var r []choiceRef
	n := Root
	for i, e := range p {
		n = n.Child(e.Name)
		if n == nil {
			break
		}
		if n.Choice != "" {
			r = append(r, choiceRef{Inst: p[:i].Canon() + "#" + n.Choice, Case: n.Case})
		}
	}
	return r
}

// ChoiceWinners computes for every populated choice instance the case holding
// the live contribution with the lowest priority number (members only).
func (m *Model) ChoiceWinners() map[string]string {
	best := map[string]map[string]int32{} // inst -> case -> best prio
	for _, it := range m.sorted() {
		for p := range it.Leaves {
			for _, cr := range ChoiceRefs(MustCanon(p)) {
				if best[cr.Inst] == nil {
					best[cr.Inst] = map[string]int32{}
				}
				if b, ok := best[cr.Inst][cr.Case]; !ok || it.Prio < b {
					best[cr.Inst][cr.Case] = it.Prio
				}
			}
		}
	}
	win := map[string]string{}
	for inst, cases := range best {
		names := make([]string, 0, len(cases))
		for c := range cases {
			names = append(names, c)
		}
		sort.Strings(names)
		w := names[0]
		for _, c := range names {
			if cases[c] < cases[w] {
				w = c
			}
		}
		win[inst] = w
	}
	return win
}

// Expected is the configuration the device must hold for the paths live
// intents define: the per-path merge restricted to the winning case of every choice.
func (m *Model) Expected() Conf {
	merge := m.Merge()
	win := m.ChoiceWinners()
	if len(win) == 0 {
		return merge
	}
	// a path inside a losing case is shadowed; the winner of a path that several
	// owners define must itself be computed among the owners that are not
	// suppressed - with distinct priorities and whole-case suppression this is
	// the plain merge value.
	for p := range merge {
		for _, cr := range ChoiceRefs(MustCanon(p)) {
			if win[cr.Inst] != cr.Case {
				delete(merge, p)
				break
			}
		}
	}
	return merge
}

// FilterOneCasePerChoice drops leaves that would put one intent into two
// cases of the same choice instance (YANG-invalid input); first come first served.
func FilterOneCasePerChoice(order []string, c Conf) Conf {
	chosen := map[string]string{}
	out := Conf{}
	for _, p := range order {
		ok := true
		refs := ChoiceRefs(MustCanon(p))
		for _, cr := range refs {
			if w, has := chosen[cr.Inst]; has && w != cr.Case {
				ok = false
			}
		}
		if !ok {
			continue
		}
		for _, cr := range refs {
			chosen[cr.Inst] = cr.Case
		}
		out[p] = c[p]
	}
	return out
}

// EnforceChoices applies what a YANG server does on every edit (RFC 7950 7.9): when a node of one case of a choice
// is written, the nodes of all other cases of that choice instance go away. written lists the paths an edit wrote.
func EnforceChoices(c Conf, written []IPath) {
	for _, w := range written {
		for _, wr := range ChoiceRefs(w) {
			for k := range c {
				for _, kr := range ChoiceRefs(MustCanon(k)) {
					if kr.Inst == wr.Inst && kr.Case != wr.Case {
						delete(c, k)
						break
					}
				}
			}
		}
	}
}
