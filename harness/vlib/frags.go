package vlib

// Fragments over the constraint subtree: named sets of leaf assignments that
// are valid, or invalid in exactly one constraint class when submitted alone
// to an empty datastore (YANG semantics; see Class).
type Fragment struct {
	Name   string
	Class  string // "" = valid; otherwise the violated class
	Leaves Conf
	// Lax: YANG says invalid but the constraint is one data-server is known to
	// read more laxly (documented, labelled, never asserted in C03).
	Lax bool
}

var Fragments = []Fragment{
	// ---- valid
	{Name: "rng-s-ok", Leaves: Conf{"/cons/rng-s": "-50"}},
	{Name: "rng-s-ok2", Leaves: Conf{"/cons/rng-s": "0"}},
	{Name: "rng-u-ok", Leaves: Conf{"/cons/rng-u": "150"}},
	{Name: "rng-ll-ok", Leaves: Conf{"/cons/rng-ll": "[1,5]"}},
	{Name: "len-ok", Leaves: Conf{"/cons/len": "abc"}},
	{Name: "len-ok8", Leaves: Conf{"/cons/len": "abcdefgh"}},
	{Name: "pat-ok", Leaves: Conf{"/cons/pat": "ab1"}},
	{Name: "must-u-ok", Leaves: Conf{"/cons/lo": "1", "/cons/hi": "5"}},
	{Name: "must-str-ok", Leaves: Conf{"/cons/mode": "on", "/cons/modedep": "x"}},
	{Name: "must-default-ok", Leaves: Conf{"/cons/defdep": "x"}},
	{Name: "svc-a", Leaves: Conf{"/cons/svc[name=a]/kind": "gold"}},
	{Name: "svc-b", Leaves: Conf{"/cons/svc[name=b]/kind": "silver", "/cons/svc[name=b]/note": "n"}},
	{Name: "mc-ok", Leaves: Conf{"/cons/mc/musthave": "x"}},
	{Name: "ref-ok", Leaves: Conf{"/cons/svc[name=a]/kind": "gold", "/cons/ref[name=r1]/target": "a"}},
	{Name: "ref-soft-dangling", Leaves: Conf{"/cons/ref[name=r3]/soft": "nosuch"}},
	{Name: "needkind-ok", Leaves: Conf{"/cons/svc[name=a]/kind": "gold", "/cons/ref[name=r4]/needkind": "a"}},
	{Name: "grp-ok", Leaves: Conf{"/cons/grp[name=g]/members": "[a,b]"}},
	{Name: "grp-ok3", Leaves: Conf{"/cons/grp[name=g]/members": "[a,b,c]", "/cons/grp[name=g]/maxonly": "[x]"}},
	{Name: "must-int-ok", Leaves: Conf{"/cons/ilo": "-3", "/cons/ihi": "2"}},
	{Name: "plain-1", Leaves: Conf{"/plain/descr": "v1", "/plain/l1[name=a]/mtu": "1500"}},
	{Name: "plain-2", Leaves: Conf{"/plain/descr-long": "v2", "/plain/tags": "[a,b]"}},
	// ---- invalid, one class each
	{Name: "rng-s-bad", Class: "range", Leaves: Conf{"/cons/rng-s": "3"}},
	{Name: "rng-u-bad", Class: "range", Leaves: Conf{"/cons/rng-u": "50"}},
	{Name: "rng-ll-bad", Class: "range", Leaves: Conf{"/cons/rng-ll": "[1,200]"}},
	{Name: "len-short", Class: "length", Leaves: Conf{"/cons/len": "x"}},
	{Name: "len-mid", Class: "length", Leaves: Conf{"/cons/len": "abcde"}},
	{Name: "pat-bad", Class: "pattern", Leaves: Conf{"/cons/pat": "zzz"}},
	{Name: "mand-svc", Class: "mandatory", Leaves: Conf{"/cons/svc[name=c]/note": "n"}},
	{Name: "mand-mc", Class: "mandatory", Leaves: Conf{"/cons/mc/opt": "o"}},
	{Name: "ref-dangling", Class: "leafref", Leaves: Conf{"/cons/ref[name=r2]/target": "nosuch"}},
	{Name: "must-u-bad", Class: "must", Leaves: Conf{"/cons/lo": "5", "/cons/hi": "1"}},
	{Name: "must-str-bad", Class: "must", Leaves: Conf{"/cons/mode": "off", "/cons/modedep": "x"}},
	{Name: "must-str-missing", Class: "must", Leaves: Conf{"/cons/modedep": "x"}},
	{Name: "needkind-bad", Class: "must", Leaves: Conf{"/cons/svc[name=b]/kind": "silver", "/cons/ref[name=r5]/needkind": "b"}},
	{Name: "grp-min", Class: "min-elements", Leaves: Conf{"/cons/grp[name=g2]/members": "[a]"}},
	{Name: "grp-max", Class: "max-elements", Leaves: Conf{"/cons/grp[name=g3]/members": "[a,b,c,d]"}},
	{Name: "type-enum", Class: "type", Leaves: Conf{"/types/enu": "nine"}},
	{Name: "type-u8", Class: "type", Leaves: Conf{"/types/u8": "300"}},
	// ---- YANG-invalid but read laxly by data-server (labelled classes)
	{Name: "pat-substring", Class: "pattern", Lax: true, Leaves: Conf{"/cons/pat": "xxab1yy"}},
	{Name: "maxonly-over", Class: "max-elements", Lax: true, Leaves: Conf{"/cons/grp[name=g4]/members": "[a,b]", "/cons/grp[name=g4]/maxonly": "[x,y,z]"}},
	{Name: "must-int-bad", Class: "must", Lax: true, Leaves: Conf{"/cons/ilo": "5", "/cons/ihi": "-1"}},
	// ---- appended later (stored cases address fragments by index: only ever append)
	// a leaf with a schema default set explicitly, and the must that reads it
	{Name: "defmode-on", Leaves: Conf{"/cons/defmode": "on"}},
	{Name: "defmode-on-dep", Leaves: Conf{"/cons/defmode": "on", "/cons/defdep": "x"}},
	{Name: "defmode-off", Leaves: Conf{"/cons/defmode": "off"}},
	{Name: "defmode-off-dep", Class: "must", Leaves: Conf{"/cons/defmode": "off", "/cons/defdep": "x"}},
	// leafref with a key predicate relative to current(), several instances bound to different keys
	{Name: "via-ok", Leaves: Conf{"/cons/svc[name=a]/kind": "gold", "/cons/ref[name=v1]/svcname": "a", "/cons/ref[name=v1]/viasvc": "gold"}},
	{Name: "via-ok2", Leaves: Conf{"/cons/svc[name=b]/kind": "silver", "/cons/ref[name=v2]/svcname": "b", "/cons/ref[name=v2]/viasvc": "silver"}},
	{Name: "via-bad", Class: "leafref", Leaves: Conf{"/cons/svc[name=a]/kind": "gold", "/cons/ref[name=v3]/svcname": "a", "/cons/ref[name=v3]/viasvc": "silver"}},
	// must over a list predicate that ends at a defaulted leaf; must over two siblings
	{Name: "wref-ok", Leaves: Conf{"/cons/svc[name=a]/kind": "gold", "/cons/ref[name=w1]/wref": "a"}},
	{Name: "wref-bad", Class: "must", Leaves: Conf{"/cons/ref[name=w2]/wref": "nosuch"}},
	{Name: "chk-ok", Leaves: Conf{"/cons/ref[name=c1]/svcname": "a", "/cons/ref[name=c1]/chk": "c"}},
	{Name: "chk-bad", Class: "must", Leaves: Conf{"/cons/ref[name=c2]/chk": "c"}},
	// a must that only holds while a defaulted leaf is set explicitly to its non-default value
	{Name: "defmode-off-dep2", Leaves: Conf{"/cons/defmode": "off", "/cons/defdep2": "x"}},
	{Name: "dep2-only", Class: "must", Leaves: Conf{"/cons/defdep2": "x"}},
	// a leaf with a default whose own must fails on the default: valid only while set explicitly (or with en)
	{Name: "sd-off", Leaves: Conf{"/cons/sd/mode": "off", "/cons/sd/other": "x"}},
	{Name: "sd-other-only", Class: "must", Leaves: Conf{"/cons/sd/other": "x"}},
	{Name: "sd-en", Leaves: Conf{"/cons/sd/en": "true", "/cons/sd/other": "y"}},
}

func FragmentIndex(name string) int {
	for i, f := range Fragments {
		if f.Name == name {
			return i
		}
	}
	panic("no fragment " + name)
}

// ValidFragmentIdx / InvalidFragmentIdx list fragment indices.
func FragmentIdx(pred func(Fragment) bool) []int {
	var r []int
	for i, f := range Fragments {
		if pred(f) {
			r = append(r, i)
		}
	}
	return r
}
