package vlib

import (
	"context"
	"encoding/json"
	"fmt"
	"os"
	"runtime/debug"
	"strings"
	"sync"
	"testing"

	"pgregory.net/rapid"
)

// Prop is one executable property: a generator of plain-data cases and an
// executor that is a pure function of the code under test and the case.
type Prop[C any] struct {
	ID   string
	Rule string
	Gen  func(t *rapid.T) C
	// Exec runs one case. It returns whether the case was non-trivial by the
	// property's rule, classification labels and the first oracle failure.
	Exec func(c C) (nontrivial bool, labels []string, fail *Failure)
}

var (
	surveyMu   sync.Mutex
	surveySeen = map[string]bool{}
)

// Outcome of running a single case including a recovered panic.
func (p Prop[C]) run(c C) (nt bool, labels []string, fail *Failure) {
	defer func() {
		if r := recover(); r != nil {
			fail = PanicFailure(p.ID, r, debug.Stack())
		}
	}()
	return p.Exec(c)
}

// RunOne executes one case with panic recovery (used by native fuzz targets).
func (p Prop[C]) RunOne(c C) (bool, []string, *Failure) {
	nt, labels, f := p.run(c)
	GetStats(p.ID).Record(c, nt, labels...)
	return nt, labels, f
}

// KnownSig reports (and counts) whether the failure matches an open known finding.
func (p Prop[C]) KnownSig(f *Failure) bool { return GetStats(p.ID).IsKnown(f) }

// SaveReplay stores the failing case as a replay file.
func (p Prop[C]) SaveReplay(c C, f *Failure) string { return GetStats(p.ID).WriteReplay(c, f) }

// Check drives the property with rapid. Failures matching an open known
// finding are counted and skipped so the search continues behind them.
func (p Prop[C]) Check(t *testing.T) {
	st := GetStats(p.ID)
	st.SetRule(p.Rule)
	rapid.Check(t, func(rt *rapid.T) {
		c := p.Gen(rt)
		done := journal(p.ID, c)
		nt, labels, f := p.run(c)
		done()
		st.Record(c, nt, labels...)
		if f != nil {
			if st.IsKnown(f) {
				return
			}
			if os.Getenv("VERIF_SURVEY") != "" {
				// triage aid: list every distinct signature instead of stopping at the first
				surveyMu.Lock()
				if !surveySeen[f.Sig] {
					surveySeen[f.Sig] = true
					d := f.Detail
					if len(d) > 1500 {
						d = d[:1500]
					}
					fmt.Printf("SURVEY %s\n  case=%s\n  %s\n", f.Sig, JSON(c), strings.ReplaceAll(d, "\n", "\n  "))
				}
				surveyMu.Unlock()
				return
			}
			path := st.WriteReplay(c, f)
			rt.Fatalf("VIOLATION-CANDIDATE property=%s sig=%s replay=%s\n%s", p.ID, f.Sig, path, f.Detail)
		}
	})
}

// journal writes the case that is about to run to <replay dir>/<ID>-inflight-<shard>.json
// when VERIF_JOURNAL is set: a panic in a goroutine the code under test spawned
// cannot be recovered and kills the process; run.py then turns the journal
// into the replay file of the violation.
func journal(id string, c any) func() {
	if os.Getenv("VERIF_JOURNAL") == "" {
		return func() {}
	}
	dir := os.Getenv("VERIF_REPLAY_DIR")
	if dir == "" {
		dir = VerifRoot() + "/replays"
	}
	_ = os.MkdirAll(dir, 0o755)
	path := fmt.Sprintf("%s/%s-inflight-%s.json", dir, id, shardName())
	b, _ := json.Marshal(map[string]any{"property": id, "sig": id + ":process-crash", "detail": "the process died while this case was running", "case": c})
	_ = os.WriteFile(path, b, 0o644)
	// a finished case stays as "last": late goroutines of the code under test can still kill the process
	last := fmt.Sprintf("%s/%s-last-%s.json", dir, id, shardName())
	return func() { _ = os.Rename(path, last) }
}

func shardName() string {
	if s := os.Getenv("VERIF_SHARD"); s != "" {
		return s
	}
	return "0"
}

// Replay runs the case stored in the file named by VERIF_REPLAY without rapid
// (the regression form of a shrunk failure).
func (p Prop[C]) Replay(t *testing.T) {
	file := os.Getenv("VERIF_REPLAY")
	if file == "" {
		t.Skip("VERIF_REPLAY not set")
	}
	var c C
	sig, err := LoadReplay(file, &c)
	if err != nil {
		fmt.Printf("HARNESS-ERROR cannot load replay %s: %v\n", file, err)
		os.Exit(2)
	}
	_, _, f := p.run(c)
	if f == nil {
		fmt.Printf("REPLAY-PASS property=%s file=%s (stored sig %s)\n", p.ID, file, sig)
		return
	}
	fmt.Printf("REPLAY-FAIL property=%s sig=%s file=%s\n%s\n", p.ID, f.Sig, file, f.Detail)
	t.Fail()
}

// Known replays the stored case of every open known finding of the property
// and reports those that still fail (they produce the KNOWN-FINDING lines).
func (p Prop[C]) Known(t *testing.T) {
	st := GetStats(p.ID)
	for _, kf := range KnownFor(p.ID) {
		if kf.Replay == "" {
			continue
		}
		fmt.Printf("KNOWN-REPLAY-START %s\n", kf.Replay)
		var c C
		if _, err := LoadReplay(VerifRoot()+"/"+kf.Replay, &c); err != nil {
			fmt.Printf("HARNESS-ERROR cannot load known-finding replay %s: %v\n", kf.Replay, err)
			os.Exit(2)
		}
		_, _, f := p.run(c)
		if f != nil && kf.re.MatchString(f.Sig) {
			st.mu.Lock()
			st.KnownSeen[kf.Sig] = kf.What
			st.mu.Unlock()
			fmt.Printf("KNOWN-FINDING: property=%s %s\n", p.ID, kf.What)
		} else if f != nil {
			// the stored case now fails differently: that is a new violation
			path := st.WriteReplay(c, f)
			t.Errorf("VIOLATION-CANDIDATE property=%s sig=%s replay=%s\n%s", p.ID, f.Sig, path, f.Detail)
		} else {
			fmt.Printf("KNOWN-FINDING-GONE: property=%s %s (stored case passes now)\n", p.ID, kf.What)
		}
	}
	p.regress(t)
}

// regress replays the regression corpus regress/<ID>/*.json: shrunk cases that once exposed a defect
// (repaired by a fix: commit) or a seeded change. They pass on the unchanged tree; a failure is judged
// like a failure of a generated case (open known finding -> counted, anything else -> violation).
func (p Prop[C]) regress(t *testing.T) {
	st := GetStats(p.ID)
	dir := VerifRoot() + "/regress/" + p.ID
	ents, err := os.ReadDir(dir)
	if err != nil {
		return
	}
	n := 0
	for _, e := range ents {
		if e.IsDir() || !strings.HasSuffix(e.Name(), ".json") {
			continue
		}
		var c C
		if _, err := LoadReplay(dir+"/"+e.Name(), &c); err != nil {
			fmt.Printf("HARNESS-ERROR cannot load regression case %s: %v\n", e.Name(), err)
			os.Exit(2)
		}
		fmt.Printf("KNOWN-REPLAY-START regress/%s/%s\n", p.ID, e.Name())
		done := journal(p.ID, c)
		nt, labels, f := p.run(c)
		done()
		st.Record(c, nt, append(labels, "regression-corpus")...)
		n++
		if f != nil && !st.IsKnown(f) {
			path := st.WriteReplay(c, f)
			t.Errorf("VIOLATION-CANDIDATE property=%s sig=%s replay=%s\nregression case regress/%s/%s fails\n%s", p.ID, f.Sig, path, p.ID, e.Name(), f.Detail)
		}
	}
	fmt.Printf("REGRESSION-CORPUS property=%s cases=%d\n", p.ID, n)
}

// Main is the TestMain body shared by all property packages.
func Main(m *testing.M) {
	env := MustEnv()
	if err := SelfCheck(context.Background(), env); err != nil {
		fmt.Fprintf(os.Stderr, "HARNESS-ERROR %v\n", err)
		env.Close()
		os.Exit(2)
	}
	code := m.Run()
	FlushAll()
	env.Close()
	os.Exit(code)
}

// PanicFailure builds the failure for a recovered panic; the signature is the
// first data-server frame of the stack (root cause, not crashing input).
func PanicFailure(id string, r any, stack []byte) *Failure {
	return Failf(id+":panic:"+panicSite(stack), "panic: %v\n%s", r, trimStack(stack))
}

func panicSite(stack []byte) string {
	// first data-server frame
	lines := splitLines(string(stack))
	for i, l := range lines {
		if containsAny(l, "github.com/sdcio/data-server/") && i+1 < len(lines) && !containsAny(l, "verif_") {
			loc := lines[i+1]
			loc = trimSpaceTabs(loc)
			if j := indexOf(loc, " +0x"); j >= 0 {
				loc = loc[:j]
			}
			if j := indexOf(loc, "/pkg/"); j >= 0 {
				loc = loc[j+1:]
			}
			return loc
		}
	}
	return "unknown"
}

func trimStack(s []byte) string {
	if len(s) > 3000 {
		return string(s[:3000])
	}
	return string(s)
}

func splitLines(s string) []string {
	var r []string
	cur := ""
	for _, ch := range s {
		if ch == '\n' {
			r = append(r, cur)
			cur = ""
		} else {
			cur += string(ch)
		}
	}
	return append(r, cur)
}
func containsAny(s, sub string) bool { return indexOf(s, sub) >= 0 }
func indexOf(s, sub string) int {
	for i := 0; i+len(sub) <= len(s); i++ {
		if s[i:i+len(sub)] == sub {
			return i
		}
	}
	return -1
}
func trimSpaceTabs(s string) string {
	for len(s) > 0 && (s[0] == ' ' || s[0] == '\t') {
		s = s[1:]
	}
	return s
}

// JSON is a helper for detail strings.
func JSON(v any) string {
	b, _ := json.Marshal(v)
	return string(b)
}
