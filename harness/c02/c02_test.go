// C02 — the intent store holds exactly each owner's last accepted intent.
package c02

import (
	"context"
	"fmt"
	"os"
	"testing"

	"pgregory.net/rapid"
	"verif/harness/vlib"
)

func TestMain(m *testing.M) { vlib.Main(m) }

var prop = vlib.Prop[*vlib.HistCase]{
	ID: "C02",
	Rule: "case = history as in C01 (1..10 multi-intent transactions, 4 owners, distinct priorities, create/replace/shrink/re-prioritise/delete/orphan, typed/string/JSON forms); " +
		"oracle = complete dump of the INTENDED store through the real cache client (GetKeys + Read(Priority:-1)) compared after every successful step with the model: per live intent exactly its leaves, values and request priority, nothing for deleted intents, untouched intents unchanged; " +
		"non-trivial = some step changes, re-prioritises or deletes an intent of which >=1 path is shadowed by another owner at that moment; distinct = distinct case JSON",
	Gen: func(t *rapid.T) *vlib.HistCase {
		return vlib.GenHistCase(t, vlib.HistGenOpts{Universe: vlib.UniPlainNA, MinSteps: 1, MaxSteps: 10, WithInit: true, AllowOrphan: true})
	},
	Exec: Exec,
}

func Exec(c *vlib.HistCase) (nontrivial bool, labels []string, fail *vlib.Failure) {
	ctx := context.Background()
	env := vlib.MustEnv()
	h, err := vlib.NewHistEnv(ctx, env, c, vlib.HistEnvOpts{})
	if err != nil {
		fmt.Fprintf(os.Stderr, "HARNESS-ERROR %v\n", err)
		os.Exit(2)
	}
	defer h.DS.Stop()
	lab := map[string]bool{}
	for i, st := range c.Steps {
		res := h.RunStep(st)
		if !res.OK {
			lab["step-refused"] = true
			vlib.GetStats("C02").Discard("step-refused")
			break
		}
		for _, l := range res.Effect.Labels {
			lab[l] = true
		}
		if res.Effect.ShadowedModified {
			nontrivial = true
		}
		if f := vlib.CheckIntendedStore(h, fmt.Sprintf("step %d", i)); f != nil {
			return nontrivial, keys(lab), f
		}
	}
	return nontrivial, keys(lab), nil
}

func keys(m map[string]bool) []string {
	var r []string
	for k := range m {
		r = append(r, k)
	}
	return r
}

func TestProp(t *testing.T)   { prop.Check(t) }
func TestReplay(t *testing.T) { prop.Replay(t) }
func TestKnown(t *testing.T)  { prop.Known(t) }
