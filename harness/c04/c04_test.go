// C04 — the accept/reject verdict is the validity of the resulting configuration.
package c04

import (
	"context"
	"fmt"
	"os"
	"sort"
	"strings"
	"testing"

	"github.com/sdcio/data-server/pkg/config"
	sdcpb "github.com/sdcio/sdc-protos/sdcpb"
	"pgregory.net/rapid"
	"verif/harness/vlib"
)

func TestMain(m *testing.M) { vlib.Main(m) }

type Case struct {
	Steps       []vlib.Step     `json:"steps"`
	Disabled    vlib.Validators `json:"disabled"`
	Sequential  bool            `json:"sequential"`
}

var (
	fragPool = vlib.FragmentIdx(func(f vlib.Fragment) bool { return f.Class != "type" })
	invalid  = vlib.FragmentIdx(func(f vlib.Fragment) bool { return f.Class != "" && f.Class != "type" })
	valid    = vlib.FragmentIdx(func(f vlib.Fragment) bool { return f.Class == "" })
)

func gen(t *rapid.T) *Case {
	c := &Case{}
	if rapid.IntRange(0, 3).Draw(t, "some-disabled") == 0 {
		c.Disabled = vlib.Validators{
			Mandatory: rapid.Bool().Draw(t, "d-mand"), Leafref: rapid.Bool().Draw(t, "d-lref"), MinMax: rapid.Bool().Draw(t, "d-minmax"),
			Pattern: rapid.Bool().Draw(t, "d-pat"), Must: rapid.Bool().Draw(t, "d-must"), Length: rapid.Bool().Draw(t, "d-len"), Range: rapid.Bool().Draw(t, "d-range"),
		}
	}
	c.Sequential = rapid.Bool().Draw(t, "sequential")
	n := rapid.IntRange(1, 8).Draw(t, "nsteps")
	if rapid.IntRange(0, 5).Draw(t, "takeover-scenario") == 0 {
		// owner A holds a value other nodes' constraints read (a defaulted leaf set explicitly, the target of a keyed
		// leafref, ...), owner B holds the dependent node; later A goes away or changes and something else
		// (schema default, running value, another owner) takes over
		pairs := [][2]string{{"defmode-on", "must-default-ok"}, {"defmode-on-dep", "must-default-ok"}, {"defmode-off", "must-default-ok"},
			{"via-ok", "via-ok2"}, {"via-ok", "wref-ok"}, {"svc-a", "via-ok"}, {"svc-a", "wref-ok"}, {"via-ok2", "chk-ok"},
			{"defmode-off", "dep2-only"}, {"defmode-off-dep2", "plain-1"},
			{"sd-off", "plain-1"}, {"sd-off", "sd-other-only"}, {"sd-off", "sd-en"}}
		p := rapid.SampledFrom(pairs).Draw(t, "takeover-pair")
		oa, ob := 0, 1
		if rapid.Bool().Draw(t, "takeover-swap") {
			oa, ob = 1, 0
		}
		mk := func(o int, frag string) vlib.IntentOp {
			return vlib.IntentOp{Owner: o, Kind: "set", Form: "typed", PrioIx: rapid.IntRange(0, len(vlib.PrioPool)-1).Draw(t, "prio"), Keep: true, Frags: []int{vlib.FragmentIndex(frag)}}
		}
		if rapid.Bool().Draw(t, "takeover-one-step") {
			c.Steps = append(c.Steps, vlib.Step{Intents: []vlib.IntentOp{mk(oa, p[0]), mk(ob, p[1])}})
		} else {
			c.Steps = append(c.Steps, vlib.Step{Intents: []vlib.IntentOp{mk(oa, p[0])}}, vlib.Step{Intents: []vlib.IntentOp{mk(ob, p[1])}})
		}
		if rapid.Bool().Draw(t, "takeover-shrink") {
			// A stays but its new version no longer holds the value (an update that drops a leaf)
			shr := mk(oa, rapid.SampledFrom([]string{"plain-1", "dep2-only", "must-default-ok", "rng-s-ok", "sd-other-only"}).Draw(t, "takeover-rest"))
			c.Steps = append(c.Steps, vlib.Step{Intents: []vlib.IntentOp{shr}})
		} else {
			c.Steps = append(c.Steps, vlib.Step{Intents: []vlib.IntentOp{{Owner: oa, Kind: "delete", Keep: true, Form: "typed"}}})
		}
		n = rapid.IntRange(0, 4).Draw(t, "nsteps-tail")
	}
	for i := 0; i < n; i++ {
		ni := rapid.SampledFrom([]int{1, 1, 2, 2, 3}).Draw(t, "nintents")
		owners := rapid.Permutation([]int{0, 1, 2, 3}).Draw(t, "owners")
		var st vlib.Step
		for j := 0; j < ni; j++ {
			op := vlib.IntentOp{Owner: owners[j], Form: "typed"}
			op.Kind = rapid.SampledFrom([]string{"set", "set", "set", "set", "delete"}).Draw(t, "kind")
			op.PrioIx = rapid.IntRange(0, len(vlib.PrioPool)-1).Draw(t, "prio")
			op.Keep = rapid.IntRange(0, 2).Draw(t, "keep") != 0
			if op.Kind == "set" {
				nf := rapid.IntRange(1, 3).Draw(t, "nfrag")
				for k := 0; k < nf; k++ {
					if rapid.IntRange(0, 2).Draw(t, "bad") == 0 {
						op.Frags = append(op.Frags, rapid.SampledFrom(invalid).Draw(t, "inv"))
					} else {
						op.Frags = append(op.Frags, rapid.SampledFrom(valid).Draw(t, "val"))
					}
				}
			}
			st.Intents = append(st.Intents, op)
		}
		c.Steps = append(c.Steps, st)
	}
	return c
}

var prop = vlib.Prop[*Case]{
	ID: "C04",
	Rule: "case = history of 1..8 multi-intent transactions over the constraint subtree (fragments valid or invalid in one class: range, length, pattern, mandatory, leafref, must, min/max-elements; 4 owners, distinct priorities, so lower-precedence intents carry shadowed values that would be invalid if active and later deletes / re-prioritisations activate them), validator switches drawn, concurrency on/off; " +
		"oracle (a) metamorphic: after every step the verdict of datastore A must equal the verdict of a fresh datastore B (same switches) that receives the step's resulting merged configuration as ONE intent; oracle (b) absolute: a hand-coded evaluator with YANG semantics, restricted to the enabled validators, must agree with A's verdict in both directions; " +
		"non-trivial = a step is rejected for exactly one class, or accepted with a resolved leafref / true must in play, or a step activates a previously shadowed value; distinct = distinct case JSON",
	Gen:  gen,
	Exec: Exec,
}

func harnessErr(err error) {
	fmt.Fprintf(os.Stderr, "HARNESS-ERROR %v\n", err)
	os.Exit(2)
}

func valCfg(c *Case) *config.Validation {
	d := c.Disabled
	return &config.Validation{
		DisableConcurrency: c.Sequential,
		DisabledValidators: config.Validators{Mandatory: d.Mandatory, Leafref: d.Leafref, LeafrefMinMaxAttributes: d.MinMax, Pattern: d.Pattern, MustStatement: d.Must, Length: d.Length, Range: d.Range},
	}
}

// verdictOfSingleIntent: a fresh datastore receives conf as one intent.
func verdictOfSingleIntent(ctx context.Context, c *Case, conf vlib.Conf) (accepted bool, why string) {
	env := vlib.MustEnv()
	hc := &vlib.HistCase{Universe: "plain", Palette: []string{"a", "b", "c"}}
	h, err := vlib.NewHistEnv(ctx, env, hc, vlib.HistEnvOpts{Validation: valCfg(c)})
	if err != nil {
		harnessErr(err)
	}
	defer h.DS.Stop()
	if len(conf) == 0 {
		return true, "empty configuration"
	}
	ri := vlib.ResolvedIntent{Name: "single", Kind: "set", Prio: 10, Explicit: conf, Form: "typed"}
	r, err := vlib.BuildIntentRequest(ri)
	if err != nil {
		harnessErr(err)
	}
	rsp, err := h.SetRequest("b", []*sdcpb.TransactionIntent{r}, nil, false)
	if err != nil {
		return false, err.Error()
	}
	if ie := vlib.IntentErrorsOf(rsp); len(ie) > 0 {
		return false, fmt.Sprint(ie)
	}
	return true, ""
}

func nonKey(c vlib.Conf) vlib.Conf {
	r := vlib.Conf{}
	for k, v := range c {
		if !vlib.MustCanon(k).IsKeyLeaf() {
			r[k] = v
		}
	}
	return r
}

func Exec(c *Case) (nontrivial bool, labels []string, fail *vlib.Failure) {
	ctx := context.Background()
	env := vlib.MustEnv()
	hc := &vlib.HistCase{Universe: "plain", Palette: []string{"a", "b", "c"}}
	h, err := vlib.NewHistEnv(ctx, env, hc, vlib.HistEnvOpts{Validation: valCfg(c)})
	if err != nil {
		harnessErr(err)
	}
	defer h.DS.Stop()
	lab := map[string]bool{}
	if c.Disabled != (vlib.Validators{}) {
		lab["some-validators-disabled"] = true
	}
	if c.Sequential {
		lab["sequential-validation"] = true
	} else {
		lab["concurrent-validation"] = true
	}
	for i, st := range c.Steps {
		// what the configuration would be if the step were accepted
		resolved := h.Model.ResolveStep(h.Uni, h.Palette, st)
		trial := cloneModel(h.Model)
		beforeMerge := h.Model.Merge()
		trial.Apply(resolved)
		result := nonKey(trial.Merge())
		res := h.RunStep(st)
		accepted := res.OK
		where := fmt.Sprintf("step %d (%s) disabled=%+v", i, describe(res.Resolved), c.Disabled)
		viol := vlib.Enabled(vlib.EvalCons(result), c.Disabled)
		classes := map[string]bool{}
		for _, v := range viol {
			classes[v.Class] = true
		}
		if !accepted && len(classes) == 1 {
			nontrivial = true
			for cl := range classes {
				lab["rejected-"+cl] = true
			}
		}
		if accepted {
			lab["accepted"] = true
			for p := range result {
				if strings.HasSuffix(p, "/target") || strings.HasSuffix(p, "/needkind") || p == "/cons/hi" || p == "/cons/modedep" || p == "/cons/defdep" {
					nontrivial = true
					lab["accepted-with-cross-leaf-constraint"] = true
				}
			}
		}
		// a shadowed value became active in this step
		for p, v := range result {
			if bv, ok := beforeMerge[p]; ok && bv != v {
				changedByOther := true
				for _, ri := range resolved {
					if nv, has := ri.Leaves[p]; has && nv == v {
						changedByOther = false
					}
				}
				if changedByOther {
					lab["shadowed-value-activated"] = true
					nontrivial = true
				}
			}
		}
		// (b) absolute oracle
		if accepted && len(viol) > 0 {
			sub := viol[0].Sub
			sig := "C04:invalid-accepted:" + viol[0].Class
			if sub != "" {
				sig += ":" + sub
			} else if activated(viol[0].Path, beforeMerge, result, resolved) {
				sig += ":activated-by-removal"
			}
			return nontrivial, keys(lab), vlib.Failf(sig, "%s was accepted, but the resulting configuration violates: %v\nresulting configuration: %s\nlive intents after: %s", where, viol, vlib.JSON(result), intents(trial))
		}
		if !accepted && len(viol) == 0 {
			return nontrivial, keys(lab), vlib.Failf("C04:valid-refused", "%s was refused (%s), but the resulting configuration satisfies every enabled constraint\nresulting configuration: %s\nlive intents after: %s", where, res.ErrText(), vlib.JSON(result), intents(trial))
		}
		// (a) metamorphic oracle
		bAcc, bWhy := verdictOfSingleIntent(ctx, c, result)
		if bAcc != accepted {
			sig := "C04:split-dependent-verdict:"
			if accepted {
				sig += "history-accepts-single-rejects"
			} else {
				sig += "history-rejects-single-accepts"
			}
			return nontrivial, keys(lab), vlib.Failf(sig, "%s: verdict accepted=%v (%s), but the same resulting configuration as one intent on an empty datastore gets accepted=%v (%s)\nresulting configuration: %s", where, accepted, res.ErrText(), bAcc, bWhy, vlib.JSON(result))
		}
	}
	return nontrivial, keys(lab), nil
}

// activated: the violating value was not set by this step's intents but became
// active because a better intent went away.
func activated(path string, before, after vlib.Conf, resolved []vlib.ResolvedIntent) bool {
	for _, ri := range resolved {
		if v, ok := ri.Leaves[path]; ok && v == after[path] {
			return false
		}
	}
	_, had := before[path]
	return had
}

func cloneModel(m *vlib.Model) *vlib.Model {
	n := vlib.NewModel(m.Initial)
	for k, it := range m.Intents {
		n.Intents[k] = &vlib.MIntent{Name: it.Name, Prio: it.Prio, Leaves: it.Leaves.Clone(), Req: it.Req}
	}
	return n
}

func intents(m *vlib.Model) string {
	var s []string
	for _, it := range m.Intents {
		s = append(s, fmt.Sprintf("%s(prio %d) %s", it.Name, it.Prio, vlib.JSON(nonKey(it.Leaves))))
	}
	sort.Strings(s)
	return strings.Join(s, "; ")
}

func describe(rs []vlib.ResolvedIntent) string {
	var s []string
	for _, ri := range rs {
		s = append(s, fmt.Sprintf("%s %s prio=%d %v", ri.Kind, ri.Name, ri.Prio, vlib.JSON(ri.Explicit)))
	}
	return strings.Join(s, "; ")
}

func keys(m map[string]bool) []string {
	var r []string
	for k := range m {
		r = append(r, k)
	}
	return r
}

func TestProp(t *testing.T)   { prop.Check(t) }
func TestReplay(t *testing.T) { prop.Replay(t) }
func TestKnown(t *testing.T)  { prop.Known(t) }
