package c09

import (
	"context"
	"fmt"
	"os"

	"github.com/sdcio/data-server/pkg/config"
	schemaClient "github.com/sdcio/data-server/pkg/datastore/clients/schema"
	"github.com/sdcio/data-server/pkg/datastore/target"
	"pgregory.net/rapid"
	"verif/harness/vlib"
)

// Closed loops (vlib/gnmiloop.go, vlib/ncloop.go): the running store the re-application is compared with is what the
// real sync of the real target made of the device's own reports - not what the transactions wrote there. After a
// history, all live intents are re-submitted verbatim: nothing may be sent. That the device holds the merge and the
// running store mirrors the device are preconditions here (C01 / C13 judge them); cases in which they fail are
// discarded and counted.

func genLoop(t *rapid.T, kind string) *Case {
	if kind == "nc" {
		return &Case{Hist: vlib.GenNCLoop(t)}
	}
	c := &Case{Hist: vlib.GenHistCase(t, vlib.HistGenOpts{Universe: vlib.UniPlainNA, MinSteps: 1, MaxSteps: 8, WithInit: true, AllowOrphan: true})}
	c.Hist.GNMI = rapid.SampledFrom([]string{"proto", "json", "json_ietf"}).Draw(t, "gnmi-encoding")
	c.Hist.Loop = true
	return c
}

func execGNMILoop(c *Case) (nontrivial bool, labels []string, fail *vlib.Failure) {
	ctx := context.Background()
	env := vlib.MustEnv()
	st := vlib.GetStats("C09")
	var tee *vlib.GNMITee
	opts := vlib.HistEnvOpts{WrapTarget: func(dev *vlib.Device) target.Target {
		gdev := vlib.NewGNMIDevice(dev.Snapshot())
		gdev.NotifyOnSet = true
		scb := schemaClient.NewSchemaClientBound(vlib.SchemaRef(), env.SchemaClient)
		real, err := target.New(ctx, "c09loop", &config.SBI{Type: "gnmi", Address: "bufnet", Port: 1, GnmiOptions: &config.SBIGnmiOptions{Encoding: c.Hist.GNMI}}, scb, gdev.DialOpts()...)
		if err != nil {
			fmt.Fprintf(os.Stderr, "HARNESS-ERROR gnmi target: %v\n", err)
			os.Exit(2)
		}
		tee = &vlib.GNMITee{Dev: dev, Real: real, GDev: gdev, Loop: true}
		return tee
	}}
	opts.DS.Sync = vlib.GNMILoopSyncConfig(c.Hist.GNMI)
	h, err := vlib.NewHistEnv(ctx, env, c.Hist, opts)
	if err != nil {
		fmt.Fprintf(os.Stderr, "HARNESS-ERROR %v\n", err)
		os.Exit(2)
	}
	defer h.DS.Stop()
	defer tee.GDev.Stop()
	lab := map[string]bool{"closed-loop-gnmi-" + c.Hist.GNMI: true}
	lp, f := vlib.StartGNMILoop(h, tee, c.Hist.GNMI)
	defer lp.Stop()
	lp.Pfx = "C09"
	discard := func(f *vlib.Failure) (bool, []string, *vlib.Failure) {
		st.Discard("closed-loop-precondition:" + f.Sig)
		return false, []string{"discard"}, nil
	}
	if f == nil {
		f = lp.CheckStore(h, "initial sync")
	}
	if f != nil {
		return discard(f)
	}
	for i, s := range c.Hist.Steps {
		res := h.RunStep(s)
		if !res.OK {
			st.Discard("step-refused")
			return false, []string{"discard"}, nil
		}
		where := fmt.Sprintf("step %d", i)
		if f := vlib.CheckConvergence(h, where, res); f != nil {
			return discard(f)
		}
		if f := lp.CheckStore(h, where); f != nil {
			return discard(f)
		}
	}
	if len(h.Model.Intents) == 0 {
		st.Discard("no-live-intent")
		return false, []string{"discard"}, nil
	}
	if f := lp.Reapply(h, "C09", "end of history"); f != nil {
		return true, keys(lab), f
	}
	return true, keys(lab), nil
}
