package c09

import (
	"pgregory.net/rapid"
	"verif/harness/vlib"
)

// Closed loops (vlib/gnmiloop.go, vlib/ncloop.go): the running store the re-application is compared with is what the
// real sync of the real target made of the device's own reports - not what the transactions wrote there. After a
// history, all live intents are re-submitted verbatim: nothing may be sent. That the device holds the merge and the
// running store mirrors the device are preconditions here (C01 / C13 judge them); cases in which they fail are
// discarded and counted.

func genLoop(t *rapid.T, kind string) *Case {
	if kind == "nc" {
		return &Case{Hist: vlib.GenNCLoop(t)}
	}
	c := &Case{Hist: vlib.GenHistCase(t, vlib.HistGenOpts{Universe: vlib.UniLoop, MinSteps: 1, MaxSteps: 8, WithInit: true, AllowOrphan: true})}
	c.Hist.GNMI = rapid.SampledFrom([]string{"proto", "json", "json_ietf"}).Draw(t, "gnmi-encoding")
	c.Hist.Loop = true
	return c
}
