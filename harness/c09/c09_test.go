// C09 — re-applying an unchanged intent is a no-op.
package c09

import (
	"context"
	"fmt"
	"os"
	"sort"
	"strings"
	"testing"

	"github.com/sdcio/cache/proto/cachepb"
	"github.com/sdcio/data-server/pkg/datastore/target"
	sdcpb "github.com/sdcio/sdc-protos/sdcpb"
	"pgregory.net/rapid"
	"verif/harness/vlib"
)

func TestMain(m *testing.M) { vlib.Main(m) }

type Case struct {
	Hist   *vlib.HistCase `json:"hist"`
	Subset []bool         `json:"subset"` // per owner slot: re-submit if live
	// Cancelled: a transaction that is applied and then cancelled before the re-submission (nil = none)
	Cancelled *vlib.Step `json:"cancelled,omitempty"`
}

var prop = vlib.Prop[*Case]{
	ID: "C09",
	Rule: "case = reachable state (history of 1..8 transactions as in C01, over the plain universe or the choice universe) + a subset of the live intents re-submitted verbatim (same name, priority, content, input form) in one transaction; " +
		"a fifth of the cases also push every change through the real gnmiTarget (proto / JSON / JSON_IETF) to an in-process gNMI device, whose SetRequest for the re-application must be empty; oracle = the recording device asks the same tree for every encoding: proto updates/deletes empty, JSON and JSON_IETF equal {}, XML empty for all 8 option combinations, response Update/Delete empty, INTENDED and CONFIG dumps identical before/after; " +
		"a quarter of the states are reached through a transaction that was applied and cancelled; precondition (else discarded and counted): the device holds the model merge on every path of the re-applied intents (a running mirror that disagrees with the device is data-server's own doing and no excuse); " +
		"non-trivial = the re-submitted subset contains a fully shadowed or a partly shadowed (mixed) intent; distinct = distinct case JSON",
	Gen: func(t *rapid.T) *Case {
		if k := os.Getenv("VERIF_C09_LOOP"); k != "" {
			return genLoop(t, k)
		}
		uni := rapid.SampledFrom([]*vlib.Universe{vlib.UniPlainNA, vlib.UniPlainNA, vlib.UniChoiceNoList}).Draw(t, "universe")
		o := vlib.HistGenOpts{Universe: uni, MinSteps: 1, MaxSteps: 8, WithInit: true, AllowOrphan: true}
		c := &Case{Hist: vlib.GenHistCase(t, o)}
		if rapid.IntRange(0, 4).Draw(t, "gnmi-device") == 2 {
			c.Hist.GNMI = rapid.SampledFrom([]string{"proto", "json", "json_ietf"}).Draw(t, "gnmi-encoding")
		}
		if rapid.IntRange(0, 3).Draw(t, "cancelled-transaction") == 0 {
			st := vlib.GenStep(t, o)
			c.Cancelled = &st
		}
		for i := 0; i < vlib.NumOwners; i++ {
			c.Subset = append(c.Subset, rapid.IntRange(0, 2).Draw(t, "resubmit") != 0)
		}
		return c
	},
	Exec: Exec,
}

func Exec(c *Case) (nontrivial bool, labels []string, fail *vlib.Failure) {
	if strings.HasPrefix(c.Hist.GNMI, "nc:") {
		return vlib.ExecNCLoop(c.Hist, "C09", true, nil)
	}
	if c.Hist.Loop {
		return vlib.ExecGNMILoop(c.Hist, "C09", true)
	}
	st := vlib.GetStats("C09")
	ctx := context.Background()
	env := vlib.MustEnv()
	var tee *vlib.GNMITee
	opts := vlib.HistEnvOpts{}
	if c.Hist.GNMI != "" {
		opts.WrapTarget = vlib.GNMIWrap(ctx, env, c.Hist.GNMI, &tee)
	}
	h, err := vlib.NewHistEnv(ctx, env, c.Hist, opts)
	if err != nil {
		fmt.Fprintf(os.Stderr, "HARNESS-ERROR %v\n", err)
		os.Exit(2)
	}
	defer h.DS.Stop()
	if tee != nil {
		defer tee.GDev.Stop()
	}
	for _, s := range c.Hist.Steps {
		if res := h.RunStep(s); !res.OK {
			st.Discard("prefix-step-refused")
			return false, []string{"discard"}, nil
		}
	}
	lab := map[string]bool{}
	if c.Cancelled != nil {
		// a transaction that is rolled back belongs to the history of a reachable state as well
		if res := h.SubmitStep(*c.Cancelled); res.OK {
			if err := h.DS.TransactionCancel(ctx, res.TxID); err != nil {
				st.Discard("cancel-refused")
				return false, []string{"discard"}, nil
			}
			lab["after-cancelled-transaction"] = true
		} else {
			h.FreeSlot(res.TxID)
		}
	}
	// subset of live intents
	var names []string
	for i, on := range c.Subset {
		if _, live := h.Model.Intents[vlib.OwnerName(i)]; on && live {
			names = append(names, vlib.OwnerName(i))
		}
	}
	if len(names) == 0 {
		st.Discard("no-live-intent-selected")
		return false, []string{"discard"}, nil
	}
	sort.Strings(names)
	// precondition: no drift on the paths of the re-applied intents
	merge := h.Model.Merge()
	cfgDump, err := vlib.DumpFlat(ctx, env.Cache, h.DSName, cachepb.Store_CONFIG)
	if err != nil {
		fmt.Fprintf(os.Stderr, "HARNESS-ERROR %v\n", err)
		os.Exit(2)
	}
	raw := h.Dev.Snapshot()
	device := vlib.NormPresence(raw)
	var reqs []*sdcpb.TransactionIntent
	for _, n := range names {
		it := h.Model.Intents[n]
		ruling, shadowed := 0, 0
		for p := range it.Leaves {
			// a presence container the device was never told to create (it exists there only through a child: the
			// suppressed case member that was not sent when its case won, C08) is sent by the re-application
			_, explicit := raw[p]
			if dv, has := device[p]; !has || dv != merge[p] || !explicit {
				// the device itself does not hold the winner (a defect C01 / C05 report): re-sending is legitimate
				if vlib.MustCanon(p).IsKeyLeaf() {
					continue
				}
				if os.Getenv("VERIF_DEBUG") != "" {
					fmt.Printf("DEBUG drift %s device=%q merge=%q cancelled=%v orphaned=%v\n", p, device[p], merge[p], c.Cancelled != nil, h.Model.Orphaned[p])
				}
				st.Discard("drifted-device")
				return false, []string{"discard"}, nil
			}
			if h.Model.Definers(p)[0].Name == n {
				ruling++
			} else {
				shadowed++
			}
		}
		switch {
		case shadowed == 0:
			lab["ruling-intent"] = true
		case ruling == 0:
			lab["fully-shadowed-intent"] = true
			nontrivial = true
		default:
			lab["mixed-intent"] = true
			nontrivial = true
		}
		lab["form-"+it.Req.Form] = true
		for p := range it.Leaves {
			if nd := vlib.MustCanon(p).Node(); nd != nil {
				if nd.Kind == vlib.KLeafList {
					lab["leaf-list"] = true
				}
				if nd.Kind == vlib.KContainer {
					lab["presence"] = true
				}
			}
		}
		r, err := vlib.BuildIntentRequest(it.Req)
		if err != nil {
			fmt.Fprintf(os.Stderr, "HARNESS-ERROR %v\n", err)
			os.Exit(2)
		}
		reqs = append(reqs, r)
	}
	if len(names) > 1 {
		lab["multi-intent-resubmit"] = true
	}
	intBefore, err1 := vlib.DumpIntended(ctx, env.Cache, h.DSName)
	if err1 != nil {
		return nontrivial, keys(lab), vlib.Failf("C09:dump-inconsistent", "before: %v", err1)
	}
	var rend *vlib.Renderings
	h.Dev.OnSet = func(ctx context.Context, src target.TargetSource, rec *vlib.SetRecord) {
		rend = vlib.RenderAll(ctx, src)
	}
	callsBefore := h.Dev.Calls()
	gnmiBefore := 0
	if tee != nil {
		gnmiBefore = tee.GDev.Calls()
		lab["real-gnmi-target-"+c.Hist.GNMI] = true
	}
	rsp, err := h.SetRequest("reapply", reqs, nil, false)
	h.Dev.OnSet = nil
	where := fmt.Sprintf("re-applying %v verbatim", names)
	if err != nil || len(vlib.IntentErrorsOf(rsp)) > 0 {
		return nontrivial, keys(lab), vlib.Failf("C09:reapply-refused", "%s was refused: err=%v intentErrors=%v", where, err, vlib.IntentErrorsOf(rsp))
	}
	defer h.DS.TransactionConfirm(ctx, "reapply")
	if len(rsp.GetUpdate()) != 0 || len(rsp.GetDelete()) != 0 {
		return nontrivial, keys(lab), vlib.Failf("C09:response-not-empty", "%s: response reports %d updates %d deletes: %v", where, len(rsp.GetUpdate()), len(rsp.GetDelete()), rsp)
	}
	if h.Dev.Calls() > callsBefore {
		if rend == nil {
			return nontrivial, keys(lab), vlib.Failf("C09:harness", "no renderings captured")
		}
		if len(rend.Errs) > 0 {
			return nontrivial, keys(lab), vlib.Failf("C09:render-error", "%s: %v", where, rend.Errs)
		}
		if len(rend.ProtoUpdNew) != 0 {
			return nontrivial, keys(lab), vlib.Failf("C09:proto-updates", "%s: device is sent %d proto updates: %v", where, len(rend.ProtoUpdNew), rend.ProtoUpdNew)
		}
		if len(rend.ProtoDel) != 0 {
			return nontrivial, keys(lab), vlib.Failf("C09:proto-deletes", "%s: device is sent %d proto deletes: %v", where, len(rend.ProtoDel), rend.ProtoDel)
		}
		if rend.JSONNew != "{}" {
			return nontrivial, keys(lab), vlib.Failf("C09:json-not-empty", "%s: JSON change document is %s", where, rend.JSONNew)
		}
		if rend.IETFNew != "{}" {
			return nontrivial, keys(lab), vlib.Failf("C09:json-ietf-not-empty", "%s: JSON_IETF change document is %s", where, rend.IETFNew)
		}
		for _, o := range vlib.AllXMLOpts(true) {
			if s := strings.TrimSpace(rend.XML[o]); s != "" {
				return nontrivial, keys(lab), vlib.Failf("C09:xml-not-empty", "%s: XML change document (%s) is %s", where, o, s)
			}
		}
	}
	if tee != nil && tee.GDev.Calls() > gnmiBefore {
		// what the real gnmiTarget put on the wire for the re-application: an empty gNMI set
		if rec := tee.GDev.LastRecord(); rec != nil && (len(rec.Updates) > 0 || len(rec.Deletes) > 0 || len(rec.Anomalies) > 0) {
			return nontrivial, keys(lab), vlib.Failf("C09:gnmi-set-not-empty:"+c.Hist.GNMI, "%s: the SetRequest of the real gnmiTarget (%s) carries %d updates, %d deletes, anomalies %v: %s", where, c.Hist.GNMI, len(rec.Updates), len(rec.Deletes), rec.Anomalies, vlib.JSON(rec))
		}
	}
	intAfter, err2 := vlib.DumpIntended(ctx, env.Cache, h.DSName)
	if err2 != nil {
		return nontrivial, keys(lab), vlib.Failf("C09:dump-inconsistent", "after: %v", err2)
	}
	if d := vlib.DiffKeys(intBefore.Keys(), intAfter.Keys()); len(d) > 0 {
		return nontrivial, keys(lab), vlib.Failf("C09:intended-changed", "%s changed the intended store:\n%s", where, strings.Join(d, "\n"))
	}
	cfgAfter, _ := vlib.DumpFlat(ctx, env.Cache, h.DSName, cachepb.Store_CONFIG)
	if d := vlib.DiffKeys(cfgDump.Keys(), cfgAfter.Keys()); len(d) > 0 {
		return nontrivial, keys(lab), vlib.Failf("C09:running-changed", "%s changed the running store:\n%s", where, strings.Join(d, "\n"))
	}
	return nontrivial, keys(lab), nil
}

func keys(m map[string]bool) []string {
	var r []string
	for k := range m {
		r = append(r, k)
	}
	return r
}

func TestProp(t *testing.T)   { prop.Check(t) }
func TestReplay(t *testing.T) { prop.Replay(t) }
func TestKnown(t *testing.T)  { prop.Known(t) }
