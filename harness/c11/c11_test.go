// C11 — path representations are lossless and collision-free.
package c11

import (
	"context"
	"fmt"
	"math"
	"os"
	"sort"
	"strings"
	"testing"

	"github.com/sdcio/data-server/pkg/cache"
	schemaClient "github.com/sdcio/data-server/pkg/datastore/clients/schema"
	"github.com/sdcio/data-server/pkg/tree"
	"github.com/sdcio/data-server/pkg/utils"
	sdcpb "github.com/sdcio/sdc-protos/sdcpb"
	"google.golang.org/protobuf/proto"
	"pgregory.net/rapid"
	"verif/harness/vlib"
)

func TestMain(m *testing.M) { vlib.Main(m) }

// key values: fragments chosen so that textual joins with '_' ',' '/' collide
var keyVals = []string{"x", "y", "x_y", "y_x", "x_x", "x/y", "x y", "x:y", "x=y", "[x]", "x]y", "x[y", "x.y", "*", "a", "a/b", "eth1", "eth10", "x\\y", "cfg"}
var keyValsComma = []string{"x,y", "y,x", ","}

var tmplPaths = []string{
	"plain/descr", "plain/descr-long", "plain/a", "plain/a_b", "plain/tags", "plain/pres", "plain/pres/inner", "plain/sub/x", "plain/extleaf", "plain/extc/e1",
	"plain/l1/descr", "plain/l1/descr-long", "plain/l1/mtu", "plain/l1/cfg/mode", "plain/l1/cfg/pres", "plain/l1/sub/v", "plain/l1/extattr",
	"plain/l2a/v", "plain/l2a/w", "plain/l3a/v", "plain/ifc/v", "plain/ifc-ext/v",
	"plain/l2z/v", "plain/l3/v",
	"plain/l1/cfg/descr",
}
var tmpls []vlib.Tmpl

func init() {
	for _, p := range tmplPaths {
		tmpls = append(tmpls, vlib.T(p))
	}
}

type PSel struct {
	T int   `json:"t"`
	K []int `json:"k"`
}

type Case struct {
	Mode  string `json:"mode"` // pure | pair
	P     PSel   `json:"p"`
	Q     PSel   `json:"q"`
	Comma bool   `json:"comma,omitempty"` // pure only: allow ',' in key values
	Small bool   `json:"small,omitempty"` // draw key values from the collision-prone subset
	Recipe int   `json:"recipe,omitempty"` // pair only: 1+index into recipes (0 = random paths)
	Frag   []int `json:"frag,omitempty"`
	Swap   bool  `json:"swap,omitempty"`
}

func (c *Case) pair() (vlib.IPath, vlib.IPath) {
	if c.Recipe == 0 {
		return resolve(c.P, false, c.Small), resolve(c.Q, false, c.Small)
	}
	r := recipes[(c.Recipe-1)%len(recipes)]
	sub := func(s string) vlib.IPath {
		for i, ph := range []string{"X", "Y", "Z"} {
			f := recipeFrags[0]
			if i < len(c.Frag) {
				f = recipeFrags[c.Frag[i]%len(recipeFrags)]
			}
			s = strings.ReplaceAll(s, ph, strings.ReplaceAll(f, "]", "\\]"))
		}
		return vlib.MustCanon(s)
	}
	p, q := sub(r[0]), sub(r[1])
	if c.Swap {
		return q, p
	}
	return p, q
}

func init() {
	for _, r := range recipes {
		for _, s := range r {
			_ = s
		}
	}
}

var smallVals = []string{"x", "y", "x_y", "y_x", "x_x", "y_y"}

// collision recipes: pairs of different instance paths whose internal textual
// forms collide or share a prefix. X, Y, Z are replaced by drawn fragments.
var recipes = [][2]string{
	{"/plain/l2a[a=X_Y][b=Z]/v", "/plain/l2a[a=X][b=Y_Z]/v"},   // equal '_'-join
	{"/plain/l2a[a=X_Y][b=Z]/v", "/plain/l2a[a=X][b=Y_Z]/w"},   // '_'-join differs only in the leaf
	{"/plain/l3a[k1=X_Y][k2=Z][k3=X]/v", "/plain/l3a[k1=X][k2=Y_Z][k3=X]/v"},
	{"/plain/l2z[zone=X_Y][name=Z]/v", "/plain/l2z[zone=X][name=Z_Y]/v"},
	{"/plain/l3[k3=X][k1=Y_Z][k2=X]/v", "/plain/l3[k3=X][k1=Y][k2=Z_X]/v"},
	{"/plain/l1[name=X]/descr", "/plain/l1[name=X]/descr-long"}, // sibling name is a prefix
	{"/plain/descr", "/plain/descr-long"},
	{"/plain/a", "/plain/a_b"},                                   // name contains the join separator
	{"/plain/ifc[name=X]/v", "/plain/ifc-ext[name=X]/v"},
	{"/plain/l1[name=eth1]/descr", "/plain/l1[name=eth10]/descr"}, // key value is a prefix
	{"/plain/l1[name=X]/descr", "/plain/l1[name=X_Y]/descr"},
	{"/plain/l1[name=X]/sub[id=1]/v", "/plain/l1[name=X]/sub[id=10]/v"},
	{"/plain/l1[name=X_sub_1]/descr", "/plain/l1[name=X]/sub[id=1]/v"},
	{"/plain/pres", "/plain/pres/inner"},                        // structural ancestor
	{"/plain/l1[name=X]/cfg/pres", "/plain/l1[name=X]/cfg/mode"},
	{"/plain/l2a[a=X][b=Y]/v", "/plain/l2a[a=Y][b=X]/v"},        // swapped keys
	{"/plain/l2z[zone=X][name=Y]/v", "/plain/l2z[zone=Y][name=X]/v"},
	// (appended) equal when the elements are simply concatenated, without any separator
	{"/plain/l2a[a=XY][b=Z]/v", "/plain/l2a[a=X][b=YZ]/v"},
	{"/plain/l3a[k1=XY][k2=Z][k3=X]/v", "/plain/l3a[k1=X][k2=YZ][k3=X]/v"},
	{"/plain/l2z[zone=XY][name=Z]/v", "/plain/l2z[zone=X][name=ZY]/v"},
	{"/plain/l1[name=XY]/sub[id=1]/v", "/plain/l1[name=X]/sub[id=1]/v"},
	// an entry whose key value is the name of a child container of the list: the element sequences spell alike
	{"/plain/l1[name=X]/cfg/descr", "/plain/l1[name=cfg]/descr"},
	{"/plain/l1[name=cfg]/descr", "/plain/l1[name=X]/cfg/descr"},
	{"/plain/l1[name=cfg]/cfg/mode", "/plain/l1[name=cfg]/descr"},
}
var recipeFrags = []string{"x", "y", "z", "x/y", "x y", "x:y", "[x]", "a", "x.y"}

func numKeys(t vlib.Tmpl) int {
	n := 0
	nd := vlib.Root
	for _, nm := range strings.Split(t.Path, "/") {
		nd = nd.Child(nm)
		if nd.Kind == vlib.KList {
			n += len(nd.Keys)
		}
	}
	return n
}

func genSel(t *rapid.T, label string, nvals int) PSel {
	ti := rapid.IntRange(0, len(tmpls)-1).Draw(t, label+"-t")
	s := PSel{T: ti}
	for i := 0; i < numKeys(tmpls[ti]); i++ {
		s.K = append(s.K, rapid.IntRange(0, nvals-1).Draw(t, label+"-k"))
	}
	return s
}

func resolve(s PSel, comma bool, small ...bool) vlib.IPath {
	vals := keyVals
	if len(small) > 0 && small[0] {
		vals = smallVals
	}
	if comma {
		vals = append(append([]string{}, keyVals...), keyValsComma...)
	}
	t := tmpls[s.T%len(tmpls)]
	var p vlib.IPath
	nd := vlib.Root
	ki := 0
	for _, nm := range strings.Split(t.Path, "/") {
		nd = nd.Child(nm)
		pe := vlib.PE{Name: nm}
		if nd.Kind == vlib.KList {
			pe.Keys = map[string]string{}
			for _, k := range nd.Keys {
				idx := 0
				if ki < len(s.K) {
					idx = s.K[ki]
				}
				ki++
				kn := nd.Child(k)
				if kn.Type != "string" {
					pe.Keys[k] = []string{"1", "2", "10"}[idx%3]
				} else {
					pe.Keys[k] = vals[idx%len(vals)]
				}
			}
		}
		p = append(p, pe)
	}
	return p
}

var prop = vlib.Prop[*Case]{
	ID: "C11",
	Rule: "case = instance path p (and for pairs a second path q) generated from the schema table: any leaf / leaf-list / presence container below lists with 1, 2 and 3 keys declared in alphabetical and non-alphabetical order, key values from an alphabet of fragments containing '/', '_', ':', '=', ' ', '[', ']', '.', '*', '\\\\' (',' for the pure conversions only); " +
		"oracles: pure = round trips ToPath(ToStrings(p))==p, ParsePath(ToXPath(p))==p, tree position SdcpbPath()==p and FilterChilds(keys) returns exactly the entry; pair = two owners write p and q through TransactionSet: request paths come back unchanged in response, device payload and intended store; existence / precedence queries and the involved-path set distinguish p and q structurally; deleting p's owner leaves q's stored entry and device value untouched; " +
		"non-trivial = p contains a multi-key list with non-alphabetical key order or a key value with a separator character, or (p,q) have equal '_'-joined or ','-joined forms or one textual form is a prefix of the other; distinct = distinct case JSON",
	Gen: func(t *rapid.T) *Case {
		c := &Case{Mode: rapid.SampledFrom([]string{"pure", "pure", "pair"}).Draw(t, "mode")}
		c.P = genSel(t, "p", len(keyVals)+3)
		c.Q = genSel(t, "q", len(keyVals)+3)
		if c.Mode == "pair" && rapid.Bool().Draw(t, "same-tmpl") {
			c.Q.T = c.P.T
		}
		if c.Mode == "pure" {
			c.Comma = rapid.Bool().Draw(t, "comma")
		} else {
			c.Small = rapid.Bool().Draw(t, "small")
			if rapid.Bool().Draw(t, "use-recipe") {
				c.Recipe = 1 + rapid.IntRange(0, len(recipes)-1).Draw(t, "recipe")
				for i := 0; i < 3; i++ {
					c.Frag = append(c.Frag, rapid.IntRange(0, len(recipeFrags)-1).Draw(t, "frag"))
				}
				c.Swap = rapid.Bool().Draw(t, "swap")
			}
		}
		return c
	},
	Exec: Exec,
}

func harnessErr(err error) {
	fmt.Fprintf(os.Stderr, "HARNESS-ERROR %v\n", err)
	os.Exit(2)
}

func pathStr(p *sdcpb.Path) string { return vlib.FromSdcpb(p).Canon() }

func nonAlpha(p vlib.IPath) bool {
	nd := vlib.Root
	for _, e := range p {
		nd = nd.Child(e.Name)
		if nd.Kind == vlib.KList && len(nd.Keys) > 1 {
			s := append([]string{}, nd.Keys...)
			sort.Strings(s)
			if strings.Join(s, " ") != strings.Join(nd.Keys, " ") {
				return true
			}
		}
	}
	return false
}

func hasSep(p vlib.IPath) bool {
	for _, e := range p {
		for _, v := range e.Keys {
			if strings.ContainsAny(v, "/_:=[] .*,\\") {
				return true
			}
		}
	}
	return false
}

func sigSuffix(p vlib.IPath) string {
	var s []string
	if nonAlpha(p) {
		s = append(s, "nonalpha-keys")
	}
	for _, e := range p {
		for _, v := range e.Keys {
			switch {
			case strings.ContainsAny(v, "[]"):
				s = append(s, "bracket")
			case strings.Contains(v, "\\"):
				s = append(s, "backslash")
			case strings.HasPrefix(v, " ") || strings.HasSuffix(v, " "):
				s = append(s, "edge-space")
			case strings.Contains(v, ","):
				s = append(s, "comma")
			}
		}
	}
	if len(s) == 0 {
		return "plain"
	}
	sort.Strings(s)
	out := s[:1]
	for _, x := range s[1:] {
		if x != out[len(out)-1] {
			out = append(out, x)
		}
	}
	return strings.Join(out, "+")
}

func newTree(ctx context.Context, env *vlib.Env, dsName string) (*tree.RootEntry, *schemaClient.SchemaClientBoundImpl, *tree.TreeCacheClientImpl) {
	scb := schemaClient.NewSchemaClientBound(vlib.SchemaRef(), env.SchemaClient)
	tcc := tree.NewTreeCacheClient(dsName, env.Cache)
	tc := tree.NewTreeContext(tcc, scb, "own0")
	root, err := tree.NewTreeRoot(ctx, tc)
	if err != nil {
		harnessErr(err)
	}
	return root, scb, tcc
}

func execPure(c *Case) (bool, []string, *vlib.Failure) {
	ctx := context.Background()
	env := vlib.MustEnv()
	p := resolve(c.P, c.Comma)
	sp := p.Sdcpb()
	lab := []string{"pure"}
	nt := nonAlpha(p) || hasSep(p)
	if nonAlpha(p) {
		lab = append(lab, "nonalpha-keys")
	}
	if hasSep(p) {
		lab = append(lab, "separator-in-key")
	}
	suffix := sigSuffix(p)
	scb := schemaClient.NewSchemaClientBound(vlib.SchemaRef(), env.SchemaClient)
	// (1) request path -> element sequence -> request path
	sl := utils.ToStrings(sp, false, false)
	back, err := scb.ToPath(ctx, sl)
	if err != nil {
		return nt, lab, vlib.Failf("C11:topath-error:"+suffix, "ToPath(ToStrings(%s)) = error %v (elements %q)", p.Canon(), err, sl)
	}
	if !vlib.FromSdcpb(back).Equal(p) {
		return nt, lab, vlib.Failf("C11:topath-roundtrip:"+suffix, "ToPath(ToStrings(p)) != p: p=%s elements=%q back=%s", p.Canon(), sl, pathStr(back))
	}
	// (2) string form
	xp := utils.ToXPath(sp, false)
	pp, err := utils.ParsePath(xp)
	if err != nil {
		return nt, lab, vlib.Failf("C11:xpath-parse-error:"+suffix, "ParsePath(ToXPath(%s)) = error %v (xpath %q)", p.Canon(), err, xp)
	}
	if !vlib.FromSdcpb(pp).Equal(p) {
		return nt, lab, vlib.Failf("C11:xpath-roundtrip:"+suffix, "ParsePath(ToXPath(p)) != p: p=%s xpath=%q back=%s", p.Canon(), xp, pathStr(pp))
	}
	if c.Comma && strings.Contains(p.Canon(), ",") {
		return nt, lab, nil // the tree is backed by the cache's ','-joined keys
	}
	// (3) position in the merge tree
	root, _, _ := newTree(ctx, env, "c11pure")
	cp, err := utils.CompletePath(nil, sp)
	if err != nil {
		return nt, lab, vlib.Failf("C11:completepath-error:"+suffix, "CompletePath(%s): %v", p.Canon(), err)
	}
	n := p.Node()
	val, _ := proto.Marshal(vlib.TVFromDenotation(n, vlib.ValueDomain(n)[0]))
	flags := tree.NewUpdateInsertFlags()
	flags.SetNewFlag()
	e, err := root.AddCacheUpdateRecursive(ctx, cache.NewUpdate(cp, val, 10, "own0", 0), flags)
	if err != nil {
		return nt, lab, vlib.Failf("C11:tree-insert-error:"+suffix, "inserting %s (%q) into the tree: %v", p.Canon(), cp, err)
	}
	tp, err := e.SdcpbPath()
	if err != nil {
		return nt, lab, vlib.Failf("C11:tree-path-error:"+suffix, "SdcpbPath of the entry for %s: %v", p.Canon(), err)
	}
	if !vlib.FromSdcpb(tp).Equal(p) {
		return nt, lab, vlib.Failf("C11:tree-path:"+suffix, "tree position of %s reports path %s (elements %q)", p.Canon(), pathStr(tp), cp)
	}
	// FilterChilds on every list level returns exactly the entry
	for i, pe := range p {
		if len(pe.Keys) == 0 {
			continue
		}
		listSlice := p[:i].Slice(true)
		listSlice = append(listSlice, pe.Name)
		le, err := root.Navigate(ctx, listSlice, true)
		if err != nil {
			return nt, lab, vlib.Failf("C11:tree-navigate:"+suffix, "navigate to list %q: %v", listSlice, err)
		}
		got, err := le.FilterChilds(pe.Keys)
		if err != nil {
			return nt, lab, vlib.Failf("C11:filterchilds-error:"+suffix, "FilterChilds(%v) on %q: %v", pe.Keys, listSlice, err)
		}
		if len(got) != 1 {
			return nt, lab, vlib.Failf("C11:filterchilds:"+suffix, "FilterChilds(%v) on list %q returned %d entries, want exactly the one inserted for %s", pe.Keys, listSlice, len(got), p.Canon())
		}
		gp, _ := got[0].SdcpbPath()
		if !vlib.FromSdcpb(gp).Equal(p[:i+1]) {
			return nt, lab, vlib.Failf("C11:filterchilds:"+suffix, "FilterChilds(%v) returned entry %s, want %s", pe.Keys, pathStr(gp), p[:i+1].Canon())
		}
	}
	return nt, lab, nil
}

func joined(p vlib.IPath, sep string) string { return strings.Join(p.Slice(true), sep) }

func execPair(c *Case) (bool, []string, *vlib.Failure) {
	ctx := context.Background()
	env := vlib.MustEnv()
	p, q := c.pair()
	lab := []string{"pair"}
	if p.Equal(q) {
		vlib.GetStats("C11").Discard("p-equals-q")
		return false, lab, nil
	}
	suffix := sigSuffix(p) + "|" + sigSuffix(q)
	nt := nonAlpha(p) || hasSep(p) || nonAlpha(q) || hasSep(q)
	ju, jq := joined(p, "_"), joined(q, "_")
	if ju == jq {
		lab = append(lab, "equal-underscore-join")
		nt = true
	}
	if strings.HasPrefix(ju, jq) || strings.HasPrefix(jq, ju) {
		lab = append(lab, "underscore-join-prefix")
		nt = true
	}
	if joined(p, ",") == joined(q, ",") {
		lab = append(lab, "equal-comma-join")
	}
	if nonAlpha(p) || nonAlpha(q) {
		lab = append(lab, "nonalpha-keys")
	}
	hc := &vlib.HistCase{Universe: "plain", Palette: []string{"a", "b", "c"}}
	h, err := vlib.NewHistEnv(ctx, env, hc, vlib.HistEnvOpts{})
	if err != nil {
		harnessErr(err)
	}
	defer h.DS.Stop()
	vp, vq := vlib.ValueDomain(p.Node())[0], vlib.ValueDomain(q.Node())[1%len(vlib.ValueDomain(q.Node()))]
	set := func(tx, owner string, prio int32, path vlib.IPath, val string) (*sdcpb.TransactionSetResponse, *vlib.Failure) {
		ri := vlib.ResolvedIntent{Name: owner, Kind: "set", Prio: prio, Explicit: vlib.Conf{path.Canon(): val}, Form: "typed"}
		r, err := vlib.BuildIntentRequest(ri)
		if err != nil {
			harnessErr(err)
		}
		rsp, err := h.SetRequest(tx, []*sdcpb.TransactionIntent{r}, nil, false)
		if err != nil || len(vlib.IntentErrorsOf(rsp)) > 0 {
			return nil, vlib.Failf("C11:valid-path-refused:"+sigSuffix(path), "setting %s=%q for %s was refused: err=%v %v", path.Canon(), val, owner, err, vlib.IntentErrorsOf(rsp))
		}
		if err := h.DS.TransactionConfirm(ctx, tx); err != nil {
			harnessErr(err)
		}
		return rsp, nil
	}
	// q first (owner B), then p (owner A)
	if _, f := set("tq", "ownq", 20, q, vq); f != nil {
		return nt, lab, f
	}
	// with only q stored: existence / precedence queries about p
	tcc := tree.NewTreeCacheClient(h.DSName, env.Cache)
	tcc.RefreshCaches(ctx)
	if ex, _ := tcc.IntendedPathExists(ctx, p.Slice(true)); ex {
		return nt, lab, vlib.Failf("C11:exists-collision:"+suffix, "only %s is stored, yet IntendedPathExists(%s) is true (elements %q vs %q)", q.Canon(), p.Canon(), q.Slice(true), p.Slice(true))
	}
	if pr := tcc.GetBranchesHighesPrecedence(ctx, p.Slice(true)); pr != math.MaxInt32 && !p.IsStrictAncestorOf(q) {
		return nt, lab, vlib.Failf("C11:precedence-collision:"+suffix, "only %s (prio 20) is stored, yet the branch precedence of %s is %d although q is no descendant of p", q.Canon(), p.Canon(), pr)
	}
	ps := tree.NewPathSet()
	ps.AddPath(p.Slice(true))
	ps.AddPath(q.Slice(true))
	if len(ps.GetPaths()) != 2 {
		return nt, lab, vlib.Failf("C11:pathset-collision:"+suffix, "PathSet treats %s and %s as the same path (elements %q / %q)", p.Canon(), q.Canon(), p.Slice(true), q.Slice(true))
	}
	rsp, f := set("tp", "ownp", 10, p, vp)
	if f != nil {
		return nt, lab, f
	}
	// request path comes back unchanged: response, device, store
	found := false
	for _, u := range rsp.GetUpdate() {
		if vlib.FromSdcpb(u.GetPath()).Equal(p) {
			found = true
		}
	}
	if !found {
		var got []string
		for _, u := range rsp.GetUpdate() {
			got = append(got, pathStr(u.GetPath()))
		}
		return nt, lab, vlib.Failf("C11:response-path:"+sigSuffix(p), "request path %s does not appear among the response update paths %v", p.Canon(), got)
	}
	dev := h.Dev.Snapshot()
	if rec := h.Dev.LastRecord(); rec != nil && len(rec.Anomalies) > 0 {
		return nt, lab, vlib.Failf("C11:device-path:"+sigSuffix(p), "device payload anomaly for %s: %v", p.Canon(), rec.Anomalies)
	}
	check := func(when string, needP bool) *vlib.Failure {
		dev = h.Dev.Snapshot()
		if p.IsStrictAncestorOf(q) || q.IsStrictAncestorOf(p) {
			// presence container and its child: both exist independently as stored values
		}
		if needP && dev[p.Canon()] != vp {
			return vlib.Failf("C11:device-path:"+sigSuffix(p), "%s: device does not hold %s=%q; device=%s", when, p.Canon(), vp, vlib.JSON(dev))
		}
		if dev[q.Canon()] != vq {
			return vlib.Failf("C11:q-disturbed:"+suffix, "%s: device value of %s should still be %q; device=%s", when, q.Canon(), vq, vlib.JSON(dev))
		}
		dump, err := vlib.DumpIntended(ctx, env.Cache, h.DSName)
		if err != nil {
			return vlib.Failf("C11:store-path:"+suffix, "%s: intended dump: %v", when, err)
		}
		hasQ, hasP := false, false
		for _, e := range dump {
			if e.Canon == q.Canon() && e.Owner == "ownq" && e.Den == vq {
				hasQ = true
			}
			if e.Canon == p.Canon() && e.Owner == "ownp" && e.Den == vp {
				hasP = true
			}
		}
		if !hasQ {
			return vlib.Failf("C11:q-disturbed:"+suffix, "%s: stored entry of %s (ownq) is gone or changed; store=%v", when, q.Canon(), dump.Keys())
		}
		if needP && !hasP {
			return vlib.Failf("C11:store-path:"+sigSuffix(p), "%s: intended store does not hold %s for ownp; store=%v", when, p.Canon(), dump.Keys())
		}
		if !needP && hasP {
			return vlib.Failf("C11:store-path:"+sigSuffix(p), "%s: intended store still holds %s of the deleted ownp", when, p.Canon())
		}
		return nil
	}
	if f := check("after writing p", true); f != nil {
		return nt, lab, f
	}
	// delete p's owner: q must be untouched, p gone
	del := &sdcpb.TransactionIntent{Intent: "ownp", Priority: 10, Delete: true}
	rsp2, err := h.SetRequest("td", []*sdcpb.TransactionIntent{del}, nil, false)
	if err != nil || len(vlib.IntentErrorsOf(rsp2)) > 0 {
		return nt, lab, vlib.Failf("C11:delete-refused:"+suffix, "deleting ownp refused: %v %v", err, vlib.IntentErrorsOf(rsp2))
	}
	_ = h.DS.TransactionConfirm(ctx, "td")
	if f := check("after deleting p's owner", false); f != nil {
		return nt, lab, f
	}
	if _, still := h.Dev.Snapshot()[p.Canon()]; still && !q.IsStrictAncestorOf(p) && !p.IsStrictAncestorOf(q) {
		return nt, lab, vlib.Failf("C11:p-not-deleted:"+suffix, "after deleting ownp the device still holds %s; device=%s", p.Canon(), vlib.JSON(h.Dev.Snapshot()))
	}
	return nt, lab, nil
}

func Exec(c *Case) (bool, []string, *vlib.Failure) {
	if c.Mode == "pair" {
		return execPair(c)
	}
	return execPure(c)
}

func TestProp(t *testing.T)   { prop.Check(t) }
func TestReplay(t *testing.T) { prop.Replay(t) }
func TestKnown(t *testing.T)  { prop.Known(t) }
