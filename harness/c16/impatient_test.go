package c16

import (
	"context"
	"fmt"
	"os"
	"strings"
	"sync"
	"time"

	"github.com/sdcio/data-server/pkg/datastore/target"
	"verif/harness/vlib"
)

// Impatient client: the device is slow, the client's Cancel / Confirm carries a context that ends while the device is
// still working, later the client calls again with a patient context. However the impatient call is answered, the
// transaction is resolved exactly once: never confirmed and rolled back, never rolled back twice.
type Impatient struct {
	First    string `json:"first"`     // cancel | confirm
	CtxMs    int    `json:"ctx_ms"`    // deadline of the impatient call
	DeviceMs int    `json:"device_ms"` // what the device takes for every Set after T was applied
	Then     []string `json:"then"`    // follow-up calls with a patient context: cancel | confirm
}

func execImpatient(c *Case) (nontrivial bool, labels []string, fail *vlib.Failure) {
	ctx := context.Background()
	env := vlib.MustEnv()
	im := c.Impatient
	h, err := vlib.NewHistEnv(ctx, env, &vlib.HistCase{Universe: "plain", Palette: c.Palette}, vlib.HistEnvOpts{})
	if err != nil {
		fmt.Fprintf(os.Stderr, "HARNESS-ERROR %v\n", err)
		os.Exit(2)
	}
	defer h.DS.Stop()
	st := vlib.GetStats("C16")
	for _, p := range c.Prefix {
		if res := h.RunStep(p); !res.OK {
			h.FreeSlot(res.TxID)
			st.Discard("prefix-refused")
			return false, []string{"discard"}, nil
		}
	}
	lab := map[string]bool{"impatient-" + im.First: true}
	h.Timeout = time.Hour
	preT := vlib.NormPresence(h.Dev.Snapshot())
	res := h.SubmitStep(c.T)
	if !res.OK {
		h.FreeSlot(res.TxID)
		st.Discard("T-refused")
		return false, []string{"discard"}, nil
	}
	tid := res.TxID
	postT := vlib.NormPresence(h.Dev.Snapshot())
	if len(postT.Diff(preT)) == 0 {
		st.Discard("T-changes-nothing")
		return false, []string{"discard"}, nil
	}
	callsAt := h.Dev.Calls()
	var mu sync.Mutex
	inflight := 0
	h.Dev.OnSet = func(ctx context.Context, src target.TargetSource, rec *vlib.SetRecord) {
		mu.Lock()
		inflight++
		mu.Unlock()
		time.Sleep(time.Duration(im.DeviceMs) * time.Millisecond)
		mu.Lock()
		inflight--
		mu.Unlock()
	}
	idle := func() {
		dl := time.Now().Add(5 * time.Second)
		for time.Now().Before(dl) {
			time.Sleep(time.Duration(im.DeviceMs+40) * time.Millisecond)
			mu.Lock()
			n := inflight
			mu.Unlock()
			if n == 0 {
				return
			}
		}
	}
	call := func(op string, cctx context.Context) error {
		if op == "confirm" {
			return h.DS.TransactionConfirm(cctx, tid)
		}
		return h.DS.TransactionCancel(cctx, tid)
	}
	var trace []string
	confirmOK, cancelOK := false, false
	cancels := 0
	note := func(op string, err error, how string) {
		if op == "cancel" {
			cancels++
		}
		trace = append(trace, fmt.Sprintf("%s(%s) -> %v", op, how, err))
		if err == nil {
			if op == "confirm" {
				confirmOK = true
			} else {
				cancelOK = true
			}
		}
	}
	ictx, cancel := context.WithTimeout(ctx, time.Duration(im.CtxMs)*time.Millisecond)
	done := make(chan error, 1)
	go func() { done <- call(im.First, ictx) }()
	select {
	case err := <-done:
		note(im.First, err, fmt.Sprintf("context of %d ms, device takes %d ms", im.CtxMs, im.DeviceMs))
	case <-time.After(20 * time.Second):
		cancel()
		return true, keys(lab), vlib.Failf("C16:impatient:does-not-return", "%s with a %d ms context has not returned after 20 s", im.First, im.CtxMs)
	}
	cancel()
	idle()
	if !confirmOK && !cancelOK && h.Dev.Calls() > callsAt {
		// the impatient Cancel was aborted half-way by its own context (the device is rolled back, the stores are not):
		// the client was told that the call failed; what is owed is that repeating the Cancel converges (C07's rule).
		// A Confirm in this state is not judged.
		lab["cancel-aborted-half-way"] = true
		for _, op := range im.Then {
			if op != "cancel" {
				h.Dev.OnSet = nil
				if id, isOpen, _ := h.DS.VerifPeekTransaction(); isOpen {
					h.FreeSlot(id)
				}
				return true, keys(lab), nil
			}
			err := call(op, ctx)
			note(op, err, "patient, after the aborted one")
			idle()
			if err != nil {
				return true, keys(lab), vlib.Failf("C16:impatient:cancel-retry-refused", "the Cancel aborted by its own context cannot be repeated:\n%s", strings.Join(trace, "\n"))
			}
			if d := vlib.NormPresence(h.Dev.Snapshot()).Diff(preT); len(d) > 0 {
				return true, keys(lab), vlib.Failf("C16:cancelled-transaction-not-rolled-back-once:impatient", "repeated Cancel returned success; device vs pre-T configuration: %v\n%s", d, strings.Join(trace, "\n"))
			}
			return true, keys(lab), nil
		}
	}
	for _, op := range im.Then {
		note(op, call(op, ctx), "patient")
		idle()
	}
	nontrivial = true
	rollbacks := h.Dev.Calls() - callsAt
	now := vlib.NormPresence(h.Dev.Snapshot())
	detail := strings.Join(trace, "\n")
	switch {
	case confirmOK && cancelOK:
		return true, keys(lab), vlib.Failf("C16:confirm-and-cancel-both-succeeded", "impatient client:\n%s", detail)
	case rollbacks > cancels:
		// (a Cancel that failed half-way because its own context ended may be repeated and then reaches the device
		// again: that is the retry C07 judges, not a second resolution)
		return true, keys(lab), vlib.Failf("C16:rolled-back-more-than-once:impatient", "the device saw %d rollback calls for %d Cancel calls\n%s", rollbacks, cancels, detail)
	case confirmOK && (rollbacks != 0 || len(now.Diff(postT)) > 0):
		return true, keys(lab), vlib.Failf("C16:confirmed-transaction-rolled-back:impatient", "Confirm returned success, the device saw %d rollback call(s); device vs post-T configuration: %v\n%s", rollbacks, now.Diff(postT), detail)
	case cancelOK && (rollbacks != 1 || len(now.Diff(preT)) > 0):
		return true, keys(lab), vlib.Failf("C16:cancelled-transaction-not-rolled-back-once:impatient", "Cancel returned success, the device saw %d rollback call(s); device vs pre-T configuration: %v\n%s", rollbacks, now.Diff(preT), detail)
	}
	switch {
	case confirmOK:
		lab["outcome-confirmed"] = true
	case cancelOK:
		lab["outcome-cancelled"] = true
	case rollbacks == 1:
		lab["outcome-rolled-back-call-reported-error"] = true
	default:
		lab["outcome-unresolved"] = true
	}
	if id, isOpen, _ := h.DS.VerifPeekTransaction(); isOpen {
		if (confirmOK || cancelOK) && id == tid {
			return true, keys(lab), vlib.Failf("C16:resolved-transaction-still-registered:impatient", "T is resolved but still occupies the slot\n%s", detail)
		}
		h.Dev.OnSet = nil
		h.FreeSlot(id)
	}
	return nontrivial, keys(lab), nil
}
