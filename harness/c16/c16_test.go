// C16 — confirm, cancel and timeout resolve each transaction exactly once.
package c16

import (
	"context"
	"errors"
	"fmt"
	"os"
	"runtime/debug"
	"sort"
	"strings"
	"sync"
	"testing"
	"time"

	"github.com/sdcio/data-server/pkg/datastore"
	"github.com/sdcio/data-server/pkg/datastore/types"
	"pgregory.net/rapid"
	"verif/harness/vlib"
)

func TestMain(m *testing.M) { vlib.Main(m) }

type Case struct {
	Palette  []string    `json:"palette"`
	Prefix   []vlib.Step `json:"prefix"` // confirmed transactions before T
	T        vlib.Step   `json:"t"`
	Ops      []string    `json:"ops"`      // 1..3 distinct of confirm | cancel | expiry | set
	Schedule []int       `json:"schedule"` // choice among the parked operations at every scheduling step
	// SameID: the competing TransactionSet re-uses the transaction id of T (clients may recycle ids)
	SameID bool `json:"same_id,omitempty"`
	// RecycledID: before T a transaction with the id T is going to use was applied and cancelled (clients may recycle ids)
	RecycledID bool `json:"recycled_id,omitempty"`
	// Impatient: instead of a schedule, a slow device and a client whose first call gives up early (impatient_test.go)
	Impatient *Impatient `json:"impatient,omitempty"`
}

func gen(t *rapid.T) *Case {
	o := vlib.HistGenOpts{Universe: vlib.UniPlain, Forms: []string{"typed"}}
	c := &Case{Palette: vlib.GenPalette(t)}
	for i, n := 0, rapid.IntRange(0, 2).Draw(t, "nprefix"); i < n; i++ {
		c.Prefix = append(c.Prefix, vlib.GenStep(t, o))
	}
	c.T = vlib.GenStep(t, o)
	all := rapid.Permutation([]string{"confirm", "cancel", "expiry", "set"}).Draw(t, "ops")
	c.Ops = append([]string{}, all[:rapid.IntRange(1, 3).Draw(t, "nops")]...)
	sort.Strings(c.Ops)
	c.Schedule = rapid.SliceOfN(rapid.IntRange(0, 5), 12, 12).Draw(t, "schedule")
	c.SameID = rapid.IntRange(0, 2).Draw(t, "competitor-reuses-id") == 0
	c.RecycledID = rapid.IntRange(0, 3).Draw(t, "recycled-id") == 0
	if rapid.IntRange(0, 7).Draw(t, "impatient-client") == 3 {
		c.Impatient = &Impatient{First: rapid.SampledFrom([]string{"cancel", "cancel", "confirm"}).Draw(t, "impatient-first"),
			CtxMs: rapid.SampledFrom([]int{1, 10, 40}).Draw(t, "impatient-ctx"), DeviceMs: rapid.SampledFrom([]int{80, 150}).Draw(t, "device-ms")}
		for i, n := 0, rapid.IntRange(1, 2).Draw(t, "impatient-nthen"); i < n; i++ {
			c.Impatient.Then = append(c.Impatient.Then, rapid.SampledFrom([]string{"confirm", "cancel"}).Draw(t, "impatient-then"))
		}
	}
	return c
}

var prop = vlib.Prop[*Case]{
	ID: "C16",
	Rule: "case = 0..2 confirmed prefix transactions + an applied transaction T + 1..3 distinct concurrent operations of {TransactionConfirm(T), TransactionCancel(T), rollback-timer expiry (timeout 40 ms), competing TransactionSet (dry run, 1.5 s context, under its own or under T's transaction id)} + a schedule: the operations run in their own goroutines and park at the yield points of hook H5 (confirm/cancel/set entry, manager lock taken in Confirm / Cancel / Rollback, timer fired, before the manager lock is requested in rollback, every registration attempt of the Set); the harness scheduler releases exactly one parked operation at a time as the drawn schedule says and treats an operation that neither parks nor finishes within 25 ms as blocked on a lock; " +
		"oracle = after all operations ended: not both Confirm and Cancel succeeded; the device saw at most one rollback call; Confirm succeeded -> no rollback call and the device holds the post-T configuration; Cancel succeeded -> exactly one and the pre-T configuration; neither -> exactly one iff the timer expired; the slot is free once T is resolved; Confirm / Cancel are not answered 'datastore locked' while the only other operation inside the datastore mutex is the waiting Set; no operation panics (a panic in the timer goroutine kills the process: case journal) and all operations end within 5 s; " +
		"non-trivial = at least two operations were released alternately (the schedule switched between operations at least once) or the expiry raced with a client call; distinct = distinct (ops, schedule prefix actually used)",
	Gen:  gen,
	Exec: Exec,
}

// ---------------------------------------------------------------- scheduler

type arrival struct {
	op    string
	point string
	gate  chan struct{}
}

type sched struct {
	mu      sync.Mutex
	active  map[string]bool // controlled operations
	arrived chan arrival
}

func opOf(point string) string {
	op := point[:strings.Index(point, ":")]
	if op == "timer" {
		return "expiry"
	}
	return op
}

func (s *sched) yield(point string) {
	op := opOf(point)
	s.mu.Lock()
	ctl := s.active[op]
	s.mu.Unlock()
	if !ctl {
		return
	}
	a := arrival{op: op, point: point, gate: make(chan struct{})}
	s.arrived <- a
	<-a.gate
}

type opState struct {
	parked   *arrival
	done     bool
	err      error
	panicked string
	released int
	trace    []string
}

func Exec(c *Case) (nontrivial bool, labels []string, fail *vlib.Failure) {
	if c.Impatient != nil {
		return execImpatient(c)
	}
	ctx := context.Background()
	env := vlib.MustEnv()
	hc := &vlib.HistCase{Universe: "plain", Palette: c.Palette}
	h, err := vlib.NewHistEnv(ctx, env, hc, vlib.HistEnvOpts{})
	if err != nil {
		fmt.Fprintf(os.Stderr, "HARNESS-ERROR %v\n", err)
		os.Exit(2)
	}
	defer h.DS.Stop()
	st := vlib.GetStats("C16")
	for _, p := range c.Prefix {
		if res := h.RunStep(p); !res.OK {
			h.FreeSlot(res.TxID)
			st.Discard("prefix-refused")
			return false, []string{"discard"}, nil
		}
	}
	has := map[string]bool{}
	for _, o := range c.Ops {
		has[o] = true
	}
	lab := map[string]bool{"ops-" + strings.Join(c.Ops, "+"): true}
	h.Timeout = time.Hour
	if has["expiry"] {
		h.Timeout = 40 * time.Millisecond
	}
	s := &sched{active: map[string]bool{}, arrived: make(chan arrival, 16)}
	types.VerifYield = s.yield
	defer func() { types.VerifYield = nil }()
	// the expiry must be under control before T's timer can fire
	s.mu.Lock()
	s.active["expiry"] = true
	s.mu.Unlock()
	if c.RecycledID {
		// an earlier transaction under the id T will use: applied, then cancelled
		h.NextTxID = "recycled"
		if pre := h.SubmitStep(c.T); pre.OK {
			if err := h.DS.TransactionCancel(ctx, pre.TxID); err != nil {
				h.FreeSlot(pre.TxID)
				st.Discard("recycled-prefix-cancel-refused")
				return false, []string{"discard"}, nil
			}
			lab["transaction-id-recycled-after-cancel"] = true
		} else {
			h.FreeSlot(pre.TxID)
		}
		h.NextTxID = "recycled"
	}
	preT := vlib.NormPresence(h.Dev.Snapshot())
	res := h.SubmitStep(c.T)
	if !res.OK {
		h.FreeSlot(res.TxID)
		st.Discard("T-refused")
		return false, []string{"discard"}, nil
	}
	tid := res.TxID
	postT := vlib.NormPresence(h.Dev.Snapshot())
	callsAt := h.Dev.Calls()

	// launch the client operations
	states := map[string]*opState{}
	for _, o := range c.Ops {
		states[o] = &opState{}
	}
	finished := make(chan string, 8)
	launch := func(op string, f func() error) {
		s.mu.Lock()
		s.active[op] = true
		s.mu.Unlock()
		go func() {
			defer func() {
				if r := recover(); r != nil {
					states[op].panicked = fmt.Sprintf("%v\n%s", r, debug.Stack())
				}
				finished <- op
			}()
			states[op].err = f()
		}()
	}
	if has["confirm"] {
		launch("confirm", func() error { return h.DS.TransactionConfirm(ctx, tid) })
	}
	if has["cancel"] {
		launch("cancel", func() error { return h.DS.TransactionCancel(ctx, tid) })
	}
	if has["set"] {
		launch("set", func() error {
			sctx, cancel := context.WithTimeout(ctx, 1500*time.Millisecond)
			defer cancel()
			// an intent of an unused owner, dry run: contends for the datastore, never touches the device
			ri := vlib.ResolvedIntent{Name: "competitor", Kind: "set", Prio: 99, Explicit: vlib.Conf{"/plain/descr": "competitor"}, Form: "typed"}
			req, err := vlib.BuildIntentRequest(ri)
			if err != nil {
				return err
			}
			ti, err := h.DS.SdcpbTransactionIntentToInternalTI(sctx, req)
			if err != nil {
				return err
			}
			cid := "competitor"
			if c.SameID {
				cid = tid
			}
			_, err = h.DS.TransactionSet(sctx, cid, []*types.TransactionIntent{ti}, nil, time.Hour, true)
			return err
		})
	}
	// the timer goroutine "finishes" when Manager.Rollback returned; it has no completion event of its own:
	// it is done when released from its last yield point and the slot / device show the outcome. Track by yield only.
	expiryLast := false

	// wait until every operation is parked at its first yield point
	parkedCount := func() int {
		n := 0
		for _, os := range states {
			if os.parked != nil {
				n++
			}
		}
		return n
	}
	absorb := func(a arrival) {
		os := states[a.op]
		if os == nil {
			// not an operation of this case (cannot happen: only controlled ops park)
			close(a.gate)
			return
		}
		os.parked = &a
		os.trace = append(os.trace, a.point)
	}
	deadline := time.After(5 * time.Second)
	for parkedCount() < len(c.Ops) {
		select {
		case a := <-s.arrived:
			absorb(a)
		case <-deadline:
			return true, keys(lab), vlib.Failf("C16:operation-never-started", "operations %v: not all reached their first yield point within 5 s (parked: %d)", c.Ops, parkedCount())
		}
	}
	// run the schedule
	var order []string
	step := 0
	lastProgress := time.Now()
	switches := 0
	lastPick := ""
	lockedWhileOnlySetInside := ""
	inside := map[string]bool{} // operations released past their entry point and not finished (may hold the datastore mutex)
	allDone := func() bool {
		for name, os := range states {
			if name == "expiry" {
				if !(expiryLast && os.parked == nil) {
					return false
				}
				continue
			}
			if !os.done {
				return false
			}
		}
		return true
	}
	for !allDone() {
		if time.Since(lastProgress) > 5*time.Second {
			var d []string
			for n, os := range states {
				d = append(d, fmt.Sprintf("%s: done=%v parked=%v trace=%v", n, os.done, os.parked != nil, os.trace))
			}
			sort.Strings(d)
			return true, keys(lab), vlib.Failf("C16:deadlock:"+strings.Join(c.Ops, "+"), "no operation made progress for 5 s; released order %v\n%s", order, strings.Join(d, "\n"))
		}
		// candidates: parked operations
		var cand []string
		for n, os := range states {
			if os.parked != nil {
				cand = append(cand, n)
			}
		}
		sort.Strings(cand)
		// an operation that is neither parked nor done is running (or sleeping between registration attempts):
		// the schedule may also decide to let it proceed for a while before anything else is released
		waitFor := 25 * time.Millisecond
		running := false
		for n, os := range states {
			if n != "expiry" && os.parked == nil && !os.done && os.released > 0 {
				running = true
			}
		}
		if running && len(cand) > 0 {
			cand = append(cand, "~wait")
		}
		if len(cand) > 0 && cand[c.Schedule[step%len(c.Schedule)]%len(cand)] == "~wait" {
			step++
			waitFor = 260 * time.Millisecond
			order = append(order, "~wait")
			cand = nil
		}
		if len(cand) > 0 {
			if cand[len(cand)-1] == "~wait" {
				cand = cand[:len(cand)-1]
			}
			pick := cand[c.Schedule[step%len(c.Schedule)]%len(cand)]
			step++
			os := states[pick]
			a := os.parked
			os.parked = nil
			os.released++
			if lastPick != "" && lastPick != pick {
				switches++
			}
			lastPick = pick
			order = append(order, pick+"@"+a.point)
			if strings.HasSuffix(a.point, ":enter") {
				inside[pick] = true
			}
			if a.point == "timer:manager-locked" {
				expiryLast = true
			}
			close(a.gate)
			lastProgress = time.Now()
		}
		// let the released operation run until it parks, finishes or proves to be blocked
		timeout := time.After(waitFor)
	WAIT:
		for {
			select {
			case a := <-s.arrived:
				absorb(a)
				lastProgress = time.Now()
				break WAIT
			case op := <-finished:
				states[op].done = true
				delete(inside, op)
				lastProgress = time.Now()
				if e := states[op].err; (op == "confirm" || op == "cancel") && errors.Is(e, datastore.ErrDatastoreLocked) {
					others := []string{}
					for o := range inside {
						others = append(others, o)
					}
					// once the expiry holds the manager lock the transaction is being rolled back: the call
					// would fail without the Set as well, so the refusal is not "merely" due to the Set
					expiryOwnsManager := false
					if es := states["expiry"]; es != nil {
						for _, p := range es.trace {
							if p == "timer:manager-locked" {
								expiryOwnsManager = true
							}
						}
					}
					// the rule is about a Set that waits for the slot of the still open T: not about a Set that already owns
					// the slot (T resolved before), nor about a T that a finished confirm / cancel resolved already
					setOwnsSlot := false
					if ss := states["set"]; ss != nil {
						for _, p := range ss.trace {
							if p == "set:registered" {
								setOwnsSlot = true
							}
						}
					}
					resolvedBefore := false
					for _, o := range []string{"confirm", "cancel"} {
						if os := states[o]; os != nil && o != op && os.done && os.err == nil && os.panicked == "" {
							resolvedBefore = true
						}
					}
					if len(others) == 1 && others[0] == "set" && !expiryOwnsManager && !setOwnsSlot && !resolvedBefore {
						lockedWhileOnlySetInside = op
					}
				}
				break WAIT
			case <-timeout:
				break WAIT
			}
		}
	}
	// quiescence: the rollback runs after the last timer yield point
	settle := time.Now().Add(3 * time.Second)
	confirmOK := has["confirm"] && states["confirm"].err == nil && states["confirm"].panicked == ""
	cancelOK := has["cancel"] && states["cancel"].err == nil && states["cancel"].panicked == ""
	expectRollbacks := 0
	if cancelOK || (!confirmOK && has["expiry"]) {
		expectRollbacks = 1
	}
	for time.Now().Before(settle) {
		_, isOpen, _ := h.DS.VerifPeekTransaction()
		if h.Dev.Calls()-callsAt >= expectRollbacks && (!isOpen || (!confirmOK && !cancelOK && !has["expiry"])) {
			break
		}
		time.Sleep(5 * time.Millisecond)
	}
	time.Sleep(30 * time.Millisecond) // a second, unexpected rollback would show up here
	if switches > 0 {
		nontrivial = true
		lab["schedule-switched"] = true
	}
	detail := func() string {
		var d []string
		for _, n := range c.Ops {
			os := states[n]
			d = append(d, fmt.Sprintf("%s: err=%v trace=%v", n, os.err, os.trace))
		}
		return fmt.Sprintf("released order %v\n%s", order, strings.Join(d, "\n"))
	}
	for _, n := range c.Ops {
		if p := states[n].panicked; p != "" {
			return true, keys(lab), vlib.Failf("C16:panic:"+n+":"+panicClass(p), "operation %s panicked: %s\n%s", n, p, detail())
		}
	}
	rollbacks := h.Dev.Calls() - callsAt
	sigOps := strings.Join(c.Ops, "+")
	if confirmOK && cancelOK {
		return true, keys(lab), vlib.Failf("C16:confirm-and-cancel-both-succeeded", "%s", detail())
	}
	if rollbacks > 1 {
		return true, keys(lab), vlib.Failf("C16:rolled-back-more-than-once:"+sigOps, "the device saw %d rollback calls\n%s", rollbacks, detail())
	}
	now := vlib.NormPresence(h.Dev.Snapshot())
	switch {
	case confirmOK:
		lab["outcome-confirmed"] = true
		if rollbacks != 0 || len(now.Diff(postT)) > 0 {
			return true, keys(lab), vlib.Failf("C16:confirmed-transaction-rolled-back:"+sigOps, "Confirm returned success, the device saw %d rollback call(s); device vs post-T configuration: %v\n%s", rollbacks, now.Diff(postT), detail())
		}
	case cancelOK:
		lab["outcome-cancelled"] = true
		if rollbacks != 1 || len(now.Diff(preT)) > 0 {
			return true, keys(lab), vlib.Failf("C16:cancelled-transaction-not-rolled-back-once:"+sigOps, "Cancel returned success, the device saw %d rollback call(s); device vs pre-T configuration: %v\n%s", rollbacks, now.Diff(preT), detail())
		}
	case has["expiry"]:
		lab["outcome-expired"] = true
		if rollbacks != 1 || len(now.Diff(preT)) > 0 {
			return true, keys(lab), vlib.Failf("C16:expired-transaction-not-rolled-back-once:"+sigOps, "no client call succeeded and the timer expired, the device saw %d rollback call(s); device vs pre-T configuration: %v\n%s", rollbacks, now.Diff(preT), detail())
		}
	default:
		lab["outcome-unresolved"] = true
		if rollbacks != 0 {
			return true, keys(lab), vlib.Failf("C16:rollback-without-cause:"+sigOps, "no operation succeeded, no expiry: %d rollback call(s)\n%s", rollbacks, detail())
		}
	}
	id, isOpen, _ := h.DS.VerifPeekTransaction()
	resolved := confirmOK || cancelOK || has["expiry"]
	if resolved && isOpen && id == tid {
		return true, keys(lab), vlib.Failf("C16:resolved-transaction-still-registered:"+sigOps, "T is resolved but still occupies the slot\n%s", detail())
	}
	if lockedWhileOnlySetInside != "" {
		return true, keys(lab), vlib.Failf("C16:"+lockedWhileOnlySetInside+"-refused-while-set-waits", "%s for the open transaction was answered 'datastore locked' while the only other operation inside the datastore was the waiting TransactionSet\n%s", lockedWhileOnlySetInside, detail())
	}
	if has["expiry"] && (has["confirm"] || has["cancel"]) {
		nontrivial = true
		lab["expiry-raced-with-client-call"] = true
	}
	if isOpen {
		h.FreeSlot(id)
	}
	return nontrivial, keys(lab), nil
}

func panicClass(p string) string {
	switch {
	case strings.Contains(p, "close of closed channel"):
		return "close-of-closed-channel"
	case strings.Contains(p, "nil pointer"):
		return "nil-pointer"
	}
	return "other"
}

func keys(m map[string]bool) []string {
	var r []string
	for k := range m {
		r = append(r, k)
	}
	return r
}

func TestProp(t *testing.T)   { prop.Check(t) }
func TestReplay(t *testing.T) { prop.Replay(t) }
func TestKnown(t *testing.T)  { prop.Known(t) }
