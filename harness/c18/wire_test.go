package c18

import (
	"context"
	"fmt"
	"os"
	"path/filepath"
	"regexp"
	"strings"
	"time"

	"github.com/beevik/etree"
	scraplinetconf "github.com/scrapli/scrapligo/driver/netconf"
	"github.com/scrapli/scrapligo/driver/options"
	"github.com/scrapli/scrapligo/transport"
	schemaClient "github.com/sdcio/data-server/pkg/datastore/clients/schema"
	"github.com/sdcio/data-server/pkg/config"
	"github.com/sdcio/data-server/pkg/datastore/target"
	"github.com/sdcio/data-server/pkg/datastore/target/netconf/driver/scrapligo"
	sdcpb "github.com/sdcio/sdc-protos/sdcpb"
	"pgregory.net/rapid"
	"verif/harness/vlib"
)

// Wire mode: the REAL driver wrapper (driver/scrapligo, hook H8) over scrapligo's file transport, which replays a
// canned NETCONF 1.0 session and records what is written to the device. The device's answer to the i-th rpc of a
// Set is scripted per case, in the spellings devices use for an rpc-error; the oracle is the same call-sequence
// rule as in the fake-driver mode, observed on the wire.
type WireCase struct {
	Commit  string   `json:"commit"`  // candidate | running
	Replies []string `json:"replies"` // reply to the i-th rpc: ok | warning | error | error-prefixed | error-attr
	Doc     int      `json:"doc"`
}

var wireDocs = []string{
	`<plain xmlns="urn:verif:main"><descr>v1</descr></plain>`,
	`<plain xmlns="urn:verif:main"><l1><name>a</name><mtu>1500</mtu></l1></plain>`,
}

func genWire(t *rapid.T) *WireCase {
	w := &WireCase{Commit: rapid.SampledFrom([]string{"candidate", "candidate", "running"}).Draw(t, "wire-commit"), Doc: rapid.IntRange(0, len(wireDocs)-1).Draw(t, "wire-doc")}
	for i := 0; i < 4; i++ {
		w.Replies = append(w.Replies, rapid.SampledFrom([]string{"ok", "ok", "ok", "warning", "error", "error-prefixed", "error+warning"}).Draw(t, "wire-reply"))
	}
	return w
}

func wireReply(kind string, id int) string {
	rpcErr := func(open, close, pfx, sev string) string {
		return fmt.Sprintf("%s<%serror-type>application</%serror-type><%serror-tag>operation-failed</%serror-tag><%serror-severity>%s</%serror-severity><%serror-message>verif: refused</%serror-message>%s", open, pfx, pfx, pfx, pfx, pfx, sev, pfx, pfx, pfx, close)
	}
	switch kind {
	case "warning":
		return fmt.Sprintf(`<rpc-reply xmlns="urn:ietf:params:xml:ns:netconf:base:1.0" message-id="%d">%s<ok/></rpc-reply>`, id, rpcErr("<rpc-error>", "</rpc-error>", "", "warning"))
	case "error":
		return fmt.Sprintf(`<rpc-reply xmlns="urn:ietf:params:xml:ns:netconf:base:1.0" message-id="%d">%s</rpc-reply>`, id, rpcErr("<rpc-error>", "</rpc-error>", "", "error"))
	case "error+warning":
		// one reply carrying a warning and an error
		return fmt.Sprintf(`<rpc-reply xmlns="urn:ietf:params:xml:ns:netconf:base:1.0" message-id="%d">%s%s</rpc-reply>`, id, rpcErr("<rpc-error>", "</rpc-error>", "", "warning"), rpcErr("<rpc-error>", "</rpc-error>", "", "error"))
	case "error-prefixed":
		return fmt.Sprintf(`<nc:rpc-reply xmlns:nc="urn:ietf:params:xml:ns:netconf:base:1.0" message-id="%d">%s</nc:rpc-reply>`, id, rpcErr("<nc:rpc-error>", "</nc:rpc-error>", "nc:", "error"))
	case "error-attr":
		// severity spelled with surrounding whitespace: still an error
		return fmt.Sprintf(`<rpc-reply xmlns="urn:ietf:params:xml:ns:netconf:base:1.0" message-id="%d"><rpc-error><error-type>protocol</error-type><error-tag>operation-failed</error-tag><error-severity> error </error-severity></rpc-error></rpc-reply>`, id)
	}
	return fmt.Sprintf(`<rpc-reply xmlns="urn:ietf:params:xml:ns:netconf:base:1.0" message-id="%d"><ok/></rpc-reply>`, id)
}

type wireSource struct {
	target.TargetSource
	doc string
}

func (s wireSource) ToXML(bool, bool, bool, bool) (*etree.Document, error) {
	d := etree.NewDocument()
	if err := d.ReadFromString(s.doc); err != nil {
		return nil, err
	}
	return d, nil
}
func (s wireSource) ToProtoUpdates(context.Context, bool) ([]*sdcpb.Update, error) { return nil, nil }
func (s wireSource) ToProtoDeletes(context.Context) ([]*sdcpb.Path, error)         { return nil, nil }

var wireOp = regexp.MustCompile(`<(edit-config|commit|discard-changes)[ >/]`)

func execWire(w *WireCase) (bool, []string, *vlib.Failure) {
	env := vlib.MustEnv()
	lab := map[string]bool{"wire": true, "wire-" + w.Commit: true}
	dir, err := os.MkdirTemp(os.Getenv("VERIF_TMP"), "c18wire")
	if err != nil {
		fmt.Fprintf(os.Stderr, "HARNESS-ERROR %v\n", err)
		os.Exit(2)
	}
	defer os.RemoveAll(dir)
	var sb strings.Builder
	sb.WriteString(`<?xml version="1.0" encoding="UTF-8"?>` + "\n" + `<hello xmlns="urn:ietf:params:xml:ns:netconf:base:1.0"><capabilities><capability>urn:ietf:params:netconf:base:1.0</capability><capability>urn:ietf:params:netconf:capability:candidate:1.0</capability></capabilities><session-id>7</session-id></hello>]]>]]>` + "\n")
	for i, k := range w.Replies {
		sb.WriteString(wireReply(k, 101+i) + "\n]]>]]>\n")
		lab["wire-reply-"+k] = true
	}
	f := filepath.Join(dir, "session.txt")
	if err := os.WriteFile(f, []byte(sb.String()), 0o600); err != nil {
		fmt.Fprintf(os.Stderr, "HARNESS-ERROR %v\n", err)
		os.Exit(2)
	}
	d, err := scraplinetconf.NewDriver("dummy", options.WithTransportType(transport.FileTransport), options.WithFileTransportFile(f), options.WithReadDelay(0), options.WithTimeoutOps(3*time.Second))
	if err == nil {
		err = d.Open()
	}
	if err != nil {
		fmt.Fprintf(os.Stderr, "HARNESS-ERROR scrapligo file transport: %v\n", err)
		os.Exit(2)
	}
	defer d.Close()
	ft := d.Transport.Impl.(*transport.File)
	nco := &config.SBINetconfOptions{CommitDatastore: w.Commit}
	sbi := &config.SBI{Type: "netconf", Address: "127.0.0.1", Port: 1, NetconfOptions: nco, ConnectRetry: 24 * time.Hour, Timeout: time.Second}
	scb := schemaClient.NewSchemaClientBound(vlib.SchemaRef(), env.SchemaClient)
	nc := target.NewNCTargetWithDriver("c18w", sbi, scb, scrapligo.VerifNewWithDriver(d))
	_, setErr := nc.Set(context.Background(), wireSource{doc: wireDocs[w.Doc%len(wireDocs)]})
	var ops []string
	for _, wr := range ft.Writes {
		if m := wireOp.FindSubmatch(wr); m != nil {
			ops = append(ops, string(m[1]))
		}
	}
	isErr := func(k string) bool { return strings.HasPrefix(k, "error") }
	// expected sequence from the scripted replies
	var want []string
	wantErr := false
	switch {
	case w.Commit == "running":
		want = []string{"edit-config"}
		wantErr = isErr(w.Replies[0])
	case isErr(w.Replies[0]):
		want, wantErr = []string{"edit-config", "discard-changes"}, true
	case isErr(w.Replies[1]):
		want, wantErr = []string{"edit-config", "commit", "discard-changes"}, true
	default:
		want = []string{"edit-config", "commit"}
	}
	where := fmt.Sprintf("commit-datastore=%s, device answers %v", w.Commit, w.Replies)
	if w.Commit != "running" && !isErr(w.Replies[0]) && w.Replies[1] == "warning" {
		// a commit answered with <ok/> and a warning: whether that counts as a failed commit is not fixed by the
		// property; both readings are accepted as long as the error goes with a discard
		alt := []string{"edit-config", "commit", "discard-changes"}
		if strings.Join(ops, ",") == strings.Join(alt, ",") && setErr != nil {
			lab["commit-warning-treated-as-failure"] = true
			return false, keys(lab), nil
		}
	}
	nt := wantErr
	if strings.Join(ops, ",") != strings.Join(want, ",") {
		cls := "spelling-" + w.Replies[0]
		if !isErr(w.Replies[0]) && len(w.Replies) > 1 {
			cls = "spelling-" + w.Replies[1]
		}
		return nt, keys(lab), vlib.Failf("C18:wire-call-sequence:"+w.Commit+":"+cls, "%s: the device was sent %v, expected %v (Set returned %v)", where, ops, want, setErr)
	}
	if wantErr != (setErr != nil) {
		return nt, keys(lab), vlib.Failf("C18:wire-error-reporting:"+w.Commit, "%s: rpcs %v; Set returned %v, expected an error: %v", where, ops, setErr, wantErr)
	}
	return nt, keys(lab), nil
}


// Stub mode: the real ncTarget over the fake driver, one Set of a fixed document, the request context is cancelled
// while the driver executes its k-th call (a client that goes away in the middle of a Set). Whatever the target makes
// of the cancellation, an error after a successful edit-config to the candidate has to be preceded by a discard.
type StubCase struct {
	Commit   string       `json:"commit"`
	CancelAt int          `json:"cancel_at"` // index of the driver call during which the context ends (-1 = before the Set)
	Fault    vlib.NCFault `json:"fault"`
}

func genStub(t *rapid.T) *StubCase {
	s := &StubCase{Commit: rapid.SampledFrom([]string{"candidate", "candidate", "running"}).Draw(t, "stub-commit"), CancelAt: rapid.IntRange(-1, 2).Draw(t, "stub-cancel-at")}
	if rapid.IntRange(0, 2).Draw(t, "stub-fault") == 1 {
		s.Fault = genFault(t)
	}
	return s
}

func execStub(sc *StubCase) (bool, []string, *vlib.Failure) {
	env := vlib.MustEnv()
	lab := map[string]bool{"stub": true, "stub-" + sc.Commit: true, fmt.Sprintf("context-ends-at-call-%d", sc.CancelAt): true}
	fake := vlib.NewNCFake()
	fake.Fault = sc.Fault
	ctx, cancel := context.WithCancel(context.Background())
	defer cancel()
	if sc.CancelAt < 0 {
		cancel()
	}
	fake.OnCall = func(i int) {
		if i == sc.CancelAt {
			cancel()
		}
	}
	nco := &config.SBINetconfOptions{CommitDatastore: sc.Commit}
	sbi := &config.SBI{Type: "netconf", Address: "127.0.0.1", Port: 1, NetconfOptions: nco, ConnectRetry: 24 * time.Hour, Timeout: time.Second}
	scb := schemaClient.NewSchemaClientBound(vlib.SchemaRef(), env.SchemaClient)
	nc := target.NewNCTargetWithDriver("c18s", sbi, scb, fake)
	_, setErr := nc.Set(ctx, wireSource{doc: wireDocs[0]})
	calls := fake.CallsFrom(0)
	pending, _, _ := fake.State()
	where := fmt.Sprintf("commit-datastore=%s, context ends during driver call %d, faults %+v: driver saw %s, Set returned %v", sc.Commit, sc.CancelAt, sc.Fault, seq(calls), setErr)
	if fake.IsAlive() && sc.Fault.Discard == "" && setErr != nil && len(pending) > 0 {
		return true, keys(lab), vlib.Failf("C18:leftover-in-candidate:context-ended", "%s; the candidate still holds %d uncommitted edit(s) although the connection is alive and no discard was refused", where, len(pending))
	}
	if setErr == nil && sc.Commit != "running" && len(calls) > 0 && len(pending) > 0 {
		return true, keys(lab), vlib.Failf("C18:success-without-commit:context-ended", "%s; Set reported success with %d uncommitted edit(s) in the candidate", where, len(pending))
	}
	return sc.CancelAt >= 0, keys(lab), nil
}
