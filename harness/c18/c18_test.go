// C18 — NETCONF edits are committed once or discarded.
package c18

import (
	"context"
	"fmt"
	"os"
	"sort"
	"strings"
	"testing"
	"time"

	"github.com/beevik/etree"
	"github.com/sdcio/data-server/pkg/config"
	schemaClient "github.com/sdcio/data-server/pkg/datastore/clients/schema"
	"github.com/sdcio/data-server/pkg/datastore/target"
	"pgregory.net/rapid"
	"verif/harness/vlib"
)

func TestMain(m *testing.M) { vlib.Main(m) }

type Case struct {
	Hist   *vlib.HistCase `json:"hist"`
	Commit string         `json:"commit"` // candidate | running
	NS     bool           `json:"ns"`
	OpNS   bool           `json:"opns"`
	Remove bool           `json:"remove"`
	Faults []vlib.NCFault `json:"faults"` // one per step
	// Wire: instead of a history over the fake driver, one Set through the real driver wrapper over a canned session
	Wire *WireCase `json:"wire,omitempty"`
	// Stub: one Set over the fake driver whose context ends during a driver call
	Stub *StubCase `json:"stub,omitempty"`
}

func genFault(t *rapid.T) vlib.NCFault {
	f := vlib.NCFault{}
	switch rapid.IntRange(0, 9).Draw(t, "fault-shape") {
	case 0, 1, 2, 3: // none
	case 4:
		f.Edit = rapid.SampledFrom([]string{"warn", "warn-nomsg"}).Draw(t, "edit-warning")
	case 5:
		f.Edit = rapid.SampledFrom([]string{"err", "err", "eof", "timeout"}).Draw(t, "edit")
	case 6:
		f.Commit = rapid.SampledFrom([]string{"err", "err", "eof", "timeout", "conn"}).Draw(t, "commit")
	case 7:
		f.Edit = "err"
		f.Discard = rapid.SampledFrom([]string{"err", "eof"}).Draw(t, "discard")
	case 8:
		f.Commit = "err"
		f.Discard = rapid.SampledFrom([]string{"err", "eof"}).Draw(t, "discard")
	case 9:
		f.Edit = rapid.SampledFrom([]string{"", "warn", "err", "eof"}).Draw(t, "edit")
		f.Commit = rapid.SampledFrom([]string{"", "err", "eof"}).Draw(t, "commit")
		f.Discard = rapid.SampledFrom([]string{"", "err", "eof"}).Draw(t, "discard")
	}
	return f
}

func gen(t *rapid.T) *Case {
	if rapid.IntRange(0, 11).Draw(t, "stub-mode") == 5 {
		return &Case{Stub: genStub(t), Hist: &vlib.HistCase{Universe: "plain", Palette: []string{"a", "b", "c"}}}
	}
	if rapid.IntRange(0, 9).Draw(t, "wire-mode") == 4 || os.Getenv("VERIF_C18_WIRE") != "" {
		return &Case{Wire: genWire(t), Hist: &vlib.HistCase{Universe: "plain", Palette: []string{"a", "b", "c"}}}
	}
	uni := rapid.SampledFrom([]*vlib.Universe{vlib.UniPlain, vlib.UniPlain, vlib.UniChoice}).Draw(t, "universe")
	o := vlib.HistGenOpts{Universe: uni, MinSteps: 1, MaxSteps: 6, WithInit: true, AllowOrphan: false}
	c := &Case{Hist: vlib.GenHistCase(t, o)}
	c.Commit = rapid.SampledFrom([]string{"candidate", "candidate", "running"}).Draw(t, "commit-datastore")
	c.NS = rapid.Bool().Draw(t, "include-ns")
	c.OpNS = rapid.Bool().Draw(t, "operation-with-namespace")
	c.Remove = rapid.Bool().Draw(t, "use-operation-remove")
	for range c.Hist.Steps {
		c.Faults = append(c.Faults, genFault(t))
	}
	return c
}

var prop = vlib.Prop[*Case]{
	ID: "C18",
	Rule: "case = generated history (1..6 transactions over the plain / choice universes, repeated intents give empty change documents) run through the real datastore whose southbound target is the real ncTarget around a fake netconf.Driver modelling a device with a shared candidate; commit-datastore and the three rendering options are drawn per case; a fault script per transaction makes the next EditConfig / Commit / Discard succeed, succeed with a warning reply (with or without the optional error-message), fail with an rpc-error (the candidate may hold a part of the edit), fail with a driver timeout / connection error while the session stays alive, or kill the connection (EOF, IsAlive false); " +
		"oracle = the driver call sequence of every Set: empty document -> no call; running -> exactly [EditConfig(running, doc)]; candidate -> [EditConfig(candidate, doc), Commit] on success, [EditConfig, Discard] on edit failure, [EditConfig, Commit, Discard] on commit failure, no Commit / Discard after a dead connection (Close allowed); doc equals the harness' own rendering with the configured options; whenever Set returns an error over a live connection whose discard was not made to fail the device candidate is empty; every commit the device accepts makes exactly the current document effective (unless an earlier discard was made to fail); the error reaches the TransactionSet caller; " +
		"non-trivial = at least one Set with a non-empty document was checked; distinct = distinct cases",
	Gen:  gen,
	Exec: Exec,
}

func seq(calls []vlib.NCCall) string {
	var s []string
	for _, c := range calls {
		x := c.Op
		if c.Target != "" {
			x += "(" + c.Target + ")"
		}
		s = append(s, x+":"+c.Result)
	}
	return "[" + strings.Join(s, " ") + "]"
}

func ops(calls []vlib.NCCall) string {
	var s []string
	for _, c := range calls {
		s = append(s, c.Op)
	}
	return strings.Join(s, ",")
}

func Exec(c *Case) (nontrivial bool, labels []string, fail *vlib.Failure) {
	if c.Wire != nil {
		return execWire(c.Wire)
	}
	if c.Stub != nil {
		return execStub(c.Stub)
	}
	ctx := context.Background()
	env := vlib.MustEnv()
	fake := vlib.NewNCFake()
	nco := &config.SBINetconfOptions{IncludeNS: c.NS, OperationWithNamespace: c.OpNS, UseOperationRemove: c.Remove, CommitDatastore: c.Commit}
	sbi := &config.SBI{Type: "netconf", Address: "127.0.0.1", Port: 1, NetconfOptions: nco, ConnectRetry: 24 * time.Hour, Timeout: time.Second}
	var tee *vlib.NCTee
	h, err := vlib.NewHistEnv(ctx, env, c.Hist, vlib.HistEnvOpts{WrapTarget: func(dev *vlib.Device) target.Target {
		scb := schemaClient.NewSchemaClientBound(vlib.SchemaRef(), env.SchemaClient)
		tee = &vlib.NCTee{NC: target.NewNCTargetWithDriver("c18", sbi, scb, fake), Dev: dev, Opts: nco}
		return tee
	}})
	if err != nil {
		fmt.Fprintf(os.Stderr, "HARNESS-ERROR %v\n", err)
		os.Exit(2)
	}
	defer h.DS.Stop()
	lab := map[string]bool{"mode-" + c.Commit: true}
	tainted := false // an earlier discard was made to fail or the connection died with edits pending
	for i, st := range c.Hist.Steps {
		f := c.Faults[i]
		fake.Fault = f
		before := fake.CallCount()
		_, setsBefore := tee.LastSet()
		aliveBefore := fake.IsAlive()
		// a transaction over a fake driver that answers at once returns at once; one that does not return holds the
		// datastore lock and the transaction slot for good
		var res *vlib.StepResult
		resCh := make(chan *vlib.StepResult, 1)
		go func() { resCh <- h.RunStep(st) }()
		select {
		case res = <-resCh:
		case <-time.After(30 * time.Second):
			return nontrivial, keys(lab), vlib.Failf("C18:transaction-does-not-return", "transaction %d (commit-datastore=%s, fault=%+v) has not returned after 30 s; driver calls so far: %s", i+1, c.Commit, f, seq(fake.CallsFrom(before)))
		}
		if !res.OK {
			h.FreeSlot(res.TxID)
		}
		calls := fake.CallsFrom(before)
		set, nSets := tee.LastSet()
		where := fmt.Sprintf("transaction %d (commit-datastore=%s, fault=%+v)", i+1, c.Commit, f)
		if nSets == setsBefore {
			// the transaction never reached the target (refused before)
			if len(calls) > 0 {
				return nontrivial, keys(lab), vlib.Failf("C18:driver-calls-without-set", "%s: driver calls %s although target.Set was not invoked", where, seq(calls))
			}
			lab["refused-before-target"] = true
			continue
		}
		if nSets != setsBefore+1 {
			return nontrivial, keys(lab), vlib.Failf("C18:set-called-more-than-once", "%s: target.Set invoked %d times in one transaction", where, nSets-setsBefore)
		}
		if !aliveBefore {
			lab["set-on-dead-connection"] = true
			if set.Err == nil {
				return nontrivial, keys(lab), vlib.Failf("C18:success-on-dead-connection", "%s: Set succeeded although the connection is dead", where)
			}
			for _, cl := range calls {
				if cl.Op == "EditConfig" || cl.Op == "Commit" {
					return nontrivial, keys(lab), vlib.Failf("C18:calls-on-dead-connection", "%s: %s issued on a dead connection", where, seq(calls))
				}
			}
			continue
		}
		if set.Err != nil && res.Err == nil && res.OK {
			return nontrivial, keys(lab), vlib.Failf("C18:target-error-swallowed", "%s: target.Set failed with %v but the transaction succeeded", where, set.Err)
		}
		if set.NoChange && len(calls) > 0 {
			return nontrivial, keys(lab), vlib.Failf("C18:calls-for-empty-change:proto-diff-empty", "%s: the change is empty (no proto update, no proto delete), yet the driver saw %s", where, seq(calls))
		}
		if set.WantDoc == "" {
			lab["empty-document"] = true
			if len(calls) > 0 {
				return nontrivial, keys(lab), vlib.Failf("C18:calls-for-empty-change", "%s: there is no change, yet the driver saw %s", where, seq(calls))
			}
			if set.Err != nil {
				return nontrivial, keys(lab), vlib.Failf("C18:error-for-empty-change", "%s: empty change gives error %v", where, set.Err)
			}
			continue
		}
		nontrivial = true
		if len(calls) == 0 || calls[0].Op != "EditConfig" {
			return nontrivial, keys(lab), vlib.Failf("C18:no-edit-config", "%s: non-empty change but the driver saw %s", where, seq(calls))
		}
		if calls[0].Target != c.Commit {
			return nontrivial, keys(lab), vlib.Failf("C18:wrong-datastore", "%s: edit-config went to %q", where, calls[0].Target)
		}
		if canonXML(calls[0].Doc) != canonXML(set.WantDoc) {
			return nontrivial, keys(lab), vlib.Failf("C18:document-differs-from-configured-rendering", "%s: the document sent differs from ToXML(onlyNew, ns=%v, opns=%v, remove=%v):\nsent: %s\nwant: %s", where, c.NS, c.OpNS, c.Remove, calls[0].Doc, set.WantDoc)
		}
		nEdit := 0
		for _, cl := range calls {
			if cl.Op == "EditConfig" {
				nEdit++
			}
		}
		if nEdit != 1 {
			return nontrivial, keys(lab), vlib.Failf("C18:edit-config-count", "%s: %d edit-config calls: %s", where, nEdit, seq(calls))
		}
		editRes := calls[0].Result
		lab["edit-"+editRes] = true
		want := ""
		wantErr := false
		closeOK := false
		switch {
		case c.Commit == "running":
			switch editRes {
			case "ok", "warn":
				want = "EditConfig"
			case "err":
				want, wantErr = "EditConfig", true
			case "eof":
				want, wantErr, closeOK = "EditConfig", true, true
			}
		default:
			switch editRes {
			case "ok", "warn":
				commitRes := ""
				if len(calls) > 1 && calls[1].Op == "Commit" {
					commitRes = calls[1].Result
				}
				lab["commit-"+commitRes] = true
				switch commitRes {
				case "ok":
					want = "EditConfig,Commit"
				case "err":
					want, wantErr = "EditConfig,Commit,Discard", true
				case "eof":
					want, wantErr, closeOK = "EditConfig,Commit", true, true
				default:
					return nontrivial, keys(lab), vlib.Failf("C18:no-commit-after-edit", "%s: edit-config succeeded but the driver saw %s", where, seq(calls))
				}
			case "err":
				want, wantErr = "EditConfig,Discard", true
			case "eof":
				want, wantErr, closeOK = "EditConfig", true, true
			}
		}
		got := ops(calls)
		if closeOK || strings.HasSuffix(got, "Discard,Close") {
			// closing a dead connection is allowed (and a discard that killed it)
			if len(calls) > 0 && calls[len(calls)-1].Result != "dead" {
				got = strings.TrimSuffix(got, ",Close")
			}
		}
		if got != want {
			sig := "C18:call-sequence:" + c.Commit + ":want-" + strings.ReplaceAll(want, ",", "-") + ":got-" + strings.ReplaceAll(got, ",", "-")
			return nontrivial, keys(lab), vlib.Failf(sig, "%s: driver call sequence %s, expected operations [%s]", where, seq(calls), want)
		}
		if wantErr != (set.Err != nil) {
			return nontrivial, keys(lab), vlib.Failf("C18:error-reporting", "%s: call sequence %s, Set returned err=%v", where, seq(calls), set.Err)
		}
		if wantErr && res.Err == nil {
			return nontrivial, keys(lab), vlib.Failf("C18:target-error-swallowed", "%s: target.Set failed with %v but TransactionSet returned no error", where, set.Err)
		}
		pending, _, commits := fake.State()
		last := calls[len(calls)-1]
		discardFailed := false
		for _, cl := range calls {
			if cl.Op == "Discard" && cl.Result != "ok" {
				discardFailed = true
				lab["discard-"+cl.Result] = true
			}
		}
		if set.Err != nil && fake.IsAlive() && !discardFailed && len(pending) > 0 {
			return nontrivial, keys(lab), vlib.Failf("C18:leftovers-in-candidate", "%s: Set returned %v over a live connection and the device candidate still holds %d uncommitted edit(s) (calls %s)", where, set.Err, len(pending), seq(calls))
		}
		if (discardFailed || !fake.IsAlive()) && len(pending) > 0 {
			tainted = true
			lab["candidate-tainted-by-injected-discard-failure"] = true
		}
		if set.Err == nil && c.Commit == "candidate" {
			if len(commits) == 0 {
				return nontrivial, keys(lab), vlib.Failf("C18:success-without-commit", "%s: Set succeeded, device never committed", where)
			}
			lc := commits[len(commits)-1]
			if !tainted && (len(lc) != 1 || canonXML(lc[0]) != canonXML(set.WantDoc)) {
				return nontrivial, keys(lab), vlib.Failf("C18:commit-made-foreign-edits-effective", "%s: the commit made %d edits effective, expected exactly the document of this transaction:\n%s", where, len(lc), strings.Join(lc, "\n"))
			}
			if len(pending) > 0 {
				return nontrivial, keys(lab), vlib.Failf("C18:leftovers-in-candidate", "%s: Set succeeded and the candidate still holds %d edits", where, len(pending))
			}
			tainted = false
		}
		_ = last
	}
	return nontrivial, keys(lab), nil
}

// canonXML orders sibling elements (the order of non-key siblings is not significant and not stable between two renderings).
func canonXML(raw string) string {
	d := etree.NewDocument()
	if err := d.ReadFromString(raw); err != nil {
		return "unparsable:" + raw
	}
	var canon func(e *etree.Element) string
	canon = func(e *etree.Element) string {
		var attrs []string
		for _, a := range e.Attr {
			attrs = append(attrs, a.FullKey()+"="+a.Value)
		}
		sort.Strings(attrs)
		var kids []string
		for _, c := range e.ChildElements() {
			kids = append(kids, canon(c))
		}
		sort.Strings(kids)
		return "<" + e.FullTag() + " " + strings.Join(attrs, " ") + ">" + strings.TrimSpace(e.Text()) + strings.Join(kids, "") + "</>"
	}
	var tops []string
	for _, c := range d.ChildElements() {
		tops = append(tops, canon(c))
	}
	sort.Strings(tops)
	return strings.Join(tops, "")
}

func keys(m map[string]bool) []string {
	var r []string
	for k := range m {
		r = append(r, k)
	}
	return r
}

func TestProp(t *testing.T)   { prop.Check(t) }
func TestReplay(t *testing.T) { prop.Replay(t) }
func TestKnown(t *testing.T)  { prop.Known(t) }
