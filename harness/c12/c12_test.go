// C12 — values survive every conversion unchanged.
package c12

import (
	"github.com/sdcio/data-server/pkg/config"
	schemaClient "github.com/sdcio/data-server/pkg/datastore/clients/schema"
	"context"
	"encoding/base64"
	"encoding/json"
	"fmt"
	"math/big"
	"os"
	"sort"
	"strconv"
	"strings"
	"testing"

	"github.com/beevik/etree"
	"github.com/openconfig/gnmi/proto/gnmi"
	"github.com/sdcio/data-server/pkg/datastore/target"
	"github.com/sdcio/data-server/pkg/utils"
	sdcpb "github.com/sdcio/sdc-protos/sdcpb"
	"pgregory.net/rapid"
	"verif/harness/vlib"
)

func TestMain(m *testing.M) { vlib.Main(m) }

// Case: one leaf (or leaf-list) of /types, abstract values given as
// denotations, an input form and a mode.
type Case struct {
	Leaf string   `json:"leaf"`
	Vals []string `json:"vals"` // one value for a leaf, 1..3 for a leaf-list
	Vals2 []string `json:"vals2,omitempty"` // second value (equality law)
	In   string   `json:"in"`   // typed | string | json | json_ietf | xml | gnmi | gnmi-ascii
	Mode string   `json:"mode"` // pure | pipeline | equal
	// GNMI (pipeline mode): the change also goes through the real gnmiTarget in this encoding to an in-process gNMI device
	GNMI string   `json:"gnmi,omitempty"`
	Pad  bool     `json:"pad,omitempty"` // non-canonical lexical form: decimal64 with trailing zeros, integers with a leading zero
	// EqForms (equal mode): which converter produces each of the two values: device (TypedValueToYANGType of the
	// string a device reports; the default), xml (utils.Convert), client-typed / client-string
	// (ConvertTypedValueToYANGType of the typed value / the string value a client sends)
	EqForms []string `json:"eq_forms,omitempty"`
}

var typesNode = vlib.Lookup("types")

func leafNames() []string {
	var r []string
	for _, c := range typesNode.Children {
		r = append(r, c.Name)
	}
	return r
}

var bounds = map[string][]string{
	"int8": {"-128", "127", "0", "-1", "1"}, "int16": {"-32768", "32767", "0"}, "int32": {"-2147483648", "2147483647", "0", "-1"},
	"int64":  {"-9223372036854775808", "9223372036854775807", "0", "-1", "1"},
	"uint8":  {"0", "255", "1"}, "uint16": {"0", "65535"}, "uint32": {"0", "4294967295", "2147483648"},
	"uint64": {"0", "18446744073709551615", "9223372036854775808", "9223372036854775807", "1"},
	"string": {"", "a", "x y", "true", "123", "ünï", "a\"b<c>&d"}, "boolean": {"true", "false"},
	"enumeration": {"one", "two", "three-3"}, "bits": {"b0", "b0 b2", "b0 b1 b2"}, "binary": {"", "AA==", "3q2+7w=="},
	"empty": {""}, "identityref": {"red", "green", "blue", "purple"},
	"union":               {"5", "-7", "auto", "off", "hello", "2147483648", "0"},
	"instance-identifier": {"/vm:plain/vm:descr", "/vm:plain/vm:l1[vm:name='a']/vm:mtu"},
}

func decBounds(fd int) []string {
	max := new(big.Int).SetInt64(9223372036854775807)
	min := new(big.Int).SetInt64(-9223372036854775808)
	r := []string{vlib.DecimalCanon(max, uint32(fd)), vlib.DecimalCanon(min, uint32(fd)), "0", vlib.DecimalCanon(big.NewInt(1), uint32(fd)), vlib.DecimalCanon(big.NewInt(-1), uint32(fd)), vlib.DecimalCanon(big.NewInt(15), uint32(1)), vlib.DecimalCanon(big.NewInt(-15), uint32(1))}
	if fd == 1 {
		r = append(r, "100", "-3", "0.5", "-0.5")
	} else {
		r = append(r, "100", "2.5", "-0.05", "1.005")
	}
	return r
}

func genScalar(t *rapid.T, n *vlib.Node, label string) string {
	typ := n.Type
	if typ == "leafref" {
		typ = n.LeafrefTo
	}
	boundary := rapid.IntRange(0, 2).Draw(t, label+"-boundary") != 0
	if typ == "decimal64" {
		if boundary {
			return rapid.SampledFrom(decBounds(n.FracDigits)).Draw(t, label)
		}
		u := rapid.Int64().Draw(t, label+"-unscaled")
		return vlib.DecimalCanon(big.NewInt(u), uint32(n.FracDigits))
	}
	if boundary || (typ != "string" && !strings.Contains(typ, "int") && typ != "binary") {
		return rapid.SampledFrom(bounds[typ]).Draw(t, label)
	}
	switch typ {
	case "int8":
		return strconv.FormatInt(int64(rapid.Int8().Draw(t, label)), 10)
	case "int16":
		return strconv.FormatInt(int64(rapid.Int16().Draw(t, label)), 10)
	case "int32":
		return strconv.FormatInt(int64(rapid.Int32().Draw(t, label)), 10)
	case "int64":
		return strconv.FormatInt(rapid.Int64().Draw(t, label), 10)
	case "uint8":
		return strconv.FormatUint(uint64(rapid.Uint8().Draw(t, label)), 10)
	case "uint16":
		return strconv.FormatUint(uint64(rapid.Uint16().Draw(t, label)), 10)
	case "uint32":
		return strconv.FormatUint(uint64(rapid.Uint32().Draw(t, label)), 10)
	case "uint64":
		return strconv.FormatUint(rapid.Uint64().Draw(t, label), 10)
	case "binary":
		return base64.StdEncoding.EncodeToString(rapid.SliceOfN(rapid.Byte(), 0, 6).Draw(t, label))
	}
	return rapid.StringMatching(`[a-zA-Z0-9 ._:/=\-]{0,8}`).Draw(t, label)
}

func genVals(t *rapid.T, n *vlib.Node, label string) []string {
	if n.Kind == vlib.KLeaf {
		return []string{genScalar(t, n, label)}
	}
	k := rapid.IntRange(1, 3).Draw(t, label+"-n")
	seen := map[string]bool{}
	var r []string
	for i := 0; i < k; i++ {
		v := genScalar(t, n, label)
		if v == "" {
			v = "e" // the denotation of a leaf-list cannot carry empty elements
		}
		if !seen[v] {
			seen[v] = true
			r = append(r, v)
		}
	}
	return r
}

func gen(t *rapid.T) *Case {
	c := &Case{Leaf: rapid.SampledFrom(leafNames()).Draw(t, "leaf")}
	n := typesNode.Child(c.Leaf)
	c.Vals = genVals(t, n, "v")
	c.Mode = rapid.SampledFrom([]string{"pure", "pure", "pipeline", "equal", "pure", "pure", "pipeline", "equal", "drift"}).Draw(t, "mode")
	switch c.Mode {
	case "pure":
		c.In = rapid.SampledFrom([]string{"typed", "string", "xml", "gnmi", "gnmi-ascii", "notif-json", "notif-json_ietf"}).Draw(t, "in")
	case "pipeline":
		c.In = rapid.SampledFrom([]string{"typed", "string", "json", "json_ietf", "json-leaf", "json_ietf-leaf"}).Draw(t, "in")
	case "equal":
		c.In = "string"
		if rapid.Bool().Draw(t, "same") {
			c.Vals2 = c.Vals
		} else {
			c.Vals2 = genVals(t, n, "w")
		}
		if rapid.Bool().Draw(t, "cross-form") {
			forms := []string{"device", "xml", "client-typed", "client-string", "notif-proto"}
			c.EqForms = []string{rapid.SampledFrom(forms).Draw(t, "form-a"), rapid.SampledFrom(forms).Draw(t, "form-b")}
		}
	}
	if c.Mode == "drift" {
		// the device reports Vals2 for a leaf the stored intent holds Vals for
		c.In = "typed"
		switch k := rapid.IntRange(0, 3).Draw(t, "drift-kind"); {
		case k == 0:
			c.Vals2 = c.Vals
		case k == 1 && n.Kind == vlib.KLeafList && len(c.Vals) >= 2 && (n.Type == "string" || n.Type == "union"):
			// one element that reads like the intended elements joined
			c.Vals2 = []string{strings.Join(c.Vals, ",")}
		default:
			c.Vals2 = genVals(t, n, "w")
		}
	}
	c.Pad = rapid.Bool().Draw(t, "pad")
	if c.Mode == "pipeline" && rapid.Bool().Draw(t, "gnmi-device") {
		c.GNMI = rapid.SampledFrom([]string{"proto", "json", "json_ietf"}).Draw(t, "gnmi-encoding")
	}
	if n.Type == "empty" && c.In == "string" {
		c.In = "typed"
	}
	return c
}

var prop = vlib.Prop[*Case]{
	ID: "C12",
	Rule: "case = (leaf or leaf-list of every YANG built-in type under /types) x (abstract value: boundaries of the type - min/max, 2^63, 2^64-1, negative and fractional decimal64 at fraction-digits 1/3/18, empty string, every enum/identity/union member - or a rapid-drawn interior value; leaf-lists of 1..3) x input form (typed, string, JSON, JSON_IETF through TransactionSet; XML text through utils.Convert; gNMI typed value through FromGNMITypedValue) x mode (half of the pipeline cases additionally deliver the change through the real gnmiTarget - proto, JSON or JSON_IETF - to an in-process gNMI device that decodes the SetRequest); " +
		"oracle = round trip through an independent denotation: pure mode calls the conversion functions directly (ConvertTypedValueToYANGType, Convert, TypedValueToYANGType, TypedValueToString, ToGNMITypedValue, GetJsonValue, TypedValueToXML) and decodes every output; pipeline mode sends one TransactionSet and decodes what the recording device receives as proto, JSON, JSON_IETF and XML plus the stored bytes; equal mode checks EqualTypedValues(tv1,tv2) <=> a1 == a2 on values produced by the code's own converters from (possibly different) lexical forms; " +
		"non-trivial = boundary value, union member other than the first, leaf-list with >=2 elements, or input form different from the output form; distinct = distinct case JSON",
	Gen:  gen,
	Exec: Exec,
}

func harnessErr(err error) {
	fmt.Fprintf(os.Stderr, "HARNESS-ERROR %v\n", err)
	os.Exit(2)
}

func den(n *vlib.Node, vals []string) string {
	if n.Kind == vlib.KLeafList {
		return vlib.LLDenotation(vals)
	}
	return vals[0]
}

// lexical form of a scalar denotation for the string / XML input forms
func lex(n *vlib.Node, d string, pad bool) string {
	typ := n.Type
	if typ == "leafref" {
		typ = n.LeafrefTo
	}
	if typ == "decimal64" {
		if !strings.Contains(d, ".") {
			if pad {
				return d + ".0"
			}
			return d
		}
		if pad && len(d)-strings.Index(d, ".")-1 < n.FracDigits {
			return d + "0"
		}
	}
	if pad && (strings.HasPrefix(typ, "int") || strings.HasPrefix(typ, "uint")) {
		// RFC 7950 9.2.1: optional sign and a sequence of decimal digits; leading zeros are valid, just not canonical
		if strings.HasPrefix(d, "-") {
			return "-0" + d[1:]
		}
		return "0" + d
	}
	return d
}

func schemaOf(ctx context.Context, n *vlib.Node) *sdcpb.SchemaElem {
	env := vlib.MustEnv()
	rsp, err := env.SchemaClient.GetSchema(ctx, &sdcpb.GetSchemaRequest{Schema: vlib.SchemaRef(), Path: vlib.P("types", n.Name).Sdcpb()})
	if err != nil {
		harnessErr(err)
	}
	return rsp.GetSchema()
}

func leafType(se *sdcpb.SchemaElem) *sdcpb.SchemaLeafType {
	if f := se.GetField(); f != nil {
		return f.GetType()
	}
	return se.GetLeaflist().GetType()
}

func typeClass(n *vlib.Node) string {
	t := n.Type
	if t == "leafref" {
		t = "leafref-" + n.LeafrefTo
	}
	if t == "decimal64" {
		t = fmt.Sprintf("decimal64-fd%d", n.FracDigits)
	}
	if n.Kind == vlib.KLeafList {
		t = "ll-" + t
	}
	return t
}

func valueClass(n *vlib.Node, v string) string {
	typ := n.Type
	if typ == "leafref" {
		typ = n.LeafrefTo
	}
	switch {
	case typ == "uint64":
		if b, _ := new(big.Int).SetString(v, 10); b != nil && b.Cmp(new(big.Int).SetUint64(1<<63)) >= 0 {
			return "ge-2^63"
		}
	case typ == "decimal64":
		c := ""
		if strings.HasPrefix(v, "-") {
			c = "neg"
		} else {
			c = "pos"
		}
		if !strings.Contains(v, ".") {
			return c + "-integral"
		}
		if strings.HasPrefix(strings.TrimPrefix(v, "-"), "0.") {
			return c + "-below-one"
		}
		return c + "-fraction"
	case typ == "string" && v == "":
		return "empty-string"
	case typ == "union":
		if _, err := strconv.ParseInt(v, 10, 32); err == nil {
			return "int-member"
		}
		if v == "auto" || v == "off" {
			return "enum-member"
		}
		return "string-member"
	}
	return "v"
}

func sig(kind string, n *vlib.Node, c *Case) string {
	vc := valueClass(n, c.Vals[0])
	return fmt.Sprintf("C12:%s:%s:%s", kind, typeClass(n), vc)
}

func nontrivial(n *vlib.Node, c *Case) bool {
	if n.Kind == vlib.KLeafList && len(c.Vals) >= 2 {
		return true
	}
	typ := n.Type
	if typ == "leafref" {
		typ = n.LeafrefTo
	}
	for _, b := range bounds[typ] {
		if c.Vals[0] == b {
			return true
		}
	}
	if typ == "decimal64" {
		for _, b := range decBounds(n.FracDigits) {
			if c.Vals[0] == b {
				return true
			}
		}
	}
	return c.In != "typed"
}

// ---- decoders of the pure outputs

func gnmiDenote(n *vlib.Node, tv *gnmi.TypedValue) (string, error) {
	if tv == nil {
		return "", fmt.Errorf("nil gNMI typed value")
	}
	if n.Kind == vlib.KLeafList {
		ll, ok := tv.Value.(*gnmi.TypedValue_LeaflistVal)
		if !ok {
			return "", fmt.Errorf("leaf-list as %T", tv.Value)
		}
		sn := *n
		sn.Kind = vlib.KLeaf
		var el []string
		for _, e := range ll.LeaflistVal.GetElement() {
			d, err := gnmiDenote(&sn, e)
			if err != nil {
				return "", err
			}
			el = append(el, d)
		}
		return vlib.LLDenotation(el), nil
	}
	// map onto the sdcpb typed value of the same shape and reuse the denotation
	var s *sdcpb.TypedValue
	switch v := tv.Value.(type) {
	case *gnmi.TypedValue_StringVal:
		s = &sdcpb.TypedValue{Value: &sdcpb.TypedValue_StringVal{StringVal: v.StringVal}}
	case *gnmi.TypedValue_IntVal:
		s = &sdcpb.TypedValue{Value: &sdcpb.TypedValue_IntVal{IntVal: v.IntVal}}
	case *gnmi.TypedValue_UintVal:
		s = &sdcpb.TypedValue{Value: &sdcpb.TypedValue_UintVal{UintVal: v.UintVal}}
	case *gnmi.TypedValue_BoolVal:
		s = &sdcpb.TypedValue{Value: &sdcpb.TypedValue_BoolVal{BoolVal: v.BoolVal}}
	case *gnmi.TypedValue_BytesVal:
		s = &sdcpb.TypedValue{Value: &sdcpb.TypedValue_BytesVal{BytesVal: v.BytesVal}}
	case *gnmi.TypedValue_DecimalVal:
		s = &sdcpb.TypedValue{Value: &sdcpb.TypedValue_DecimalVal{DecimalVal: &sdcpb.Decimal64{Digits: v.DecimalVal.GetDigits(), Precision: v.DecimalVal.GetPrecision()}}}
	case *gnmi.TypedValue_DoubleVal:
		s = &sdcpb.TypedValue{Value: &sdcpb.TypedValue_DoubleVal{DoubleVal: v.DoubleVal}}
	case *gnmi.TypedValue_AsciiVal:
		s = &sdcpb.TypedValue{Value: &sdcpb.TypedValue_AsciiVal{AsciiVal: v.AsciiVal}}
	default:
		return "", fmt.Errorf("gNMI value kind %T", tv.Value)
	}
	return vlib.DenoteTV(n, s)
}

func nativeGNMI(n *vlib.Node, vals []string) *gnmi.TypedValue {
	one := func(d string) *gnmi.TypedValue {
		tv := vlib.TVFromDenotation(&vlib.Node{Kind: vlib.KLeaf, Type: n.Type, LeafrefTo: n.LeafrefTo, Enums: n.Enums, FracDigits: n.FracDigits}, d)
		switch v := tv.Value.(type) {
		case *sdcpb.TypedValue_StringVal:
			return &gnmi.TypedValue{Value: &gnmi.TypedValue_StringVal{StringVal: v.StringVal}}
		case *sdcpb.TypedValue_IntVal:
			return &gnmi.TypedValue{Value: &gnmi.TypedValue_IntVal{IntVal: v.IntVal}}
		case *sdcpb.TypedValue_UintVal:
			return &gnmi.TypedValue{Value: &gnmi.TypedValue_UintVal{UintVal: v.UintVal}}
		case *sdcpb.TypedValue_BoolVal:
			return &gnmi.TypedValue{Value: &gnmi.TypedValue_BoolVal{BoolVal: v.BoolVal}}
		case *sdcpb.TypedValue_BytesVal:
			return &gnmi.TypedValue{Value: &gnmi.TypedValue_BytesVal{BytesVal: v.BytesVal}}
		case *sdcpb.TypedValue_DecimalVal:
			return &gnmi.TypedValue{Value: &gnmi.TypedValue_DecimalVal{DecimalVal: &gnmi.Decimal64{Digits: v.DecimalVal.Digits, Precision: v.DecimalVal.Precision}}}
		case *sdcpb.TypedValue_IdentityrefVal:
			return &gnmi.TypedValue{Value: &gnmi.TypedValue_StringVal{StringVal: v.IdentityrefVal.Value}}
		}
		return nil
	}
	if n.Kind == vlib.KLeafList {
		arr := &gnmi.ScalarArray{}
		for _, v := range vals {
			arr.Element = append(arr.Element, one(v))
		}
		return &gnmi.TypedValue{Value: &gnmi.TypedValue_LeaflistVal{LeaflistVal: arr}}
	}
	return one(vals[0])
}

func jsonValueDenote(n *vlib.Node, v any, ietf bool) (string, error) {
	b, err := json.Marshal(map[string]any{"verif-main:types": map[string]any{n.Name: v}})
	if !ietf {
		b, err = json.Marshal(map[string]any{"types": map[string]any{n.Name: v}})
	}
	if err != nil {
		return "", err
	}
	conf, an := vlib.DecodeJSONDoc(string(b), ietf)
	if len(an) > 0 {
		return "", fmt.Errorf("%v", an)
	}
	d, ok := conf["/types/"+n.Name]
	if !ok {
		return "", fmt.Errorf("value missing in %s", b)
	}
	return d, nil
}

func xmlValueDenote(n *vlib.Node, parent *etree.Element) (string, error) {
	doc := etree.NewDocument()
	t := doc.CreateElement("types")
	for _, c := range parent.ChildElements() {
		t.AddChild(c.Copy())
	}
	s, _ := doc.WriteToString()
	ch := vlib.DecodeXMLDoc(s, false)
	if len(ch.Anomalies) > 0 {
		return "", fmt.Errorf("%v (%s)", ch.Anomalies, s)
	}
	d, ok := ch.Updates["/types/"+n.Name]
	if !ok {
		return "", fmt.Errorf("value missing in %s", s)
	}
	return d, nil
}

// ---- modes

func execPure(ctx context.Context, n *vlib.Node, c *Case) *vlib.Failure {
	want := den(n, c.Vals)
	se := schemaOf(ctx, n)
	lt := leafType(se)
	var stored *sdcpb.TypedValue
	switch c.In {
	case "typed", "string":
		var in *sdcpb.TypedValue
		if c.In == "typed" {
			in = vlib.TVFromDenotation(n, want)
		} else {
			lv := make([]string, len(c.Vals))
			for i, v := range c.Vals {
				lv[i] = lex(n, v, c.Pad)
			}
			in = vlib.StringTVFromDenotation(n, den(n, lv))
			if n.Kind == vlib.KLeaf {
				in = &sdcpb.TypedValue{Value: &sdcpb.TypedValue_StringVal{StringVal: lv[0]}}
			}
		}
		out, err := utils.ConvertTypedValueToYANGType(se, in)
		if err != nil {
			return vlib.Failf(sig("convert-"+c.In+"-refused", n, c), "ConvertTypedValueToYANGType(%s, %v) for valid value %q: %v", n.Name, in, want, err)
		}
		stored = out
	case "xml":
		if n.Kind == vlib.KLeafList {
			vlib.GetStats("C12").Discard("xml-leaflist-goes-through-transform-context")
			return nil
		}
		out, err := utils.Convert(lex(n, c.Vals[0], c.Pad), lt)
		if err != nil {
			return vlib.Failf(sig("xmltext-refused", n, c), "utils.Convert(%q) for leaf %s: %v", lex(n, c.Vals[0], c.Pad), n.Name, err)
		}
		stored = out
	case "gnmi-ascii":
		// a target using the ASCII encoding reports every value as ascii_val holding the lexical form
		if n.Kind == vlib.KLeafList || n.Type == "empty" {
			vlib.GetStats("C12").Discard("no-ascii-form")
			return nil
		}
		g := &gnmi.TypedValue{Value: &gnmi.TypedValue_AsciiVal{AsciiVal: lex(n, c.Vals[0], c.Pad)}}
		s := utils.FromGNMITypedValue(g)
		if s == nil {
			return vlib.Failf(sig("from-gnmi-nil", n, c), "FromGNMITypedValue(%v) returned nil for leaf %s value %q", g, n.Name, want)
		}
		out, err := utils.TypedValueToYANGType(s, se)
		if err != nil {
			return vlib.Failf(sig("from-gnmi-ascii-refused", n, c), "TypedValueToYANGType(FromGNMITypedValue(%v)) for leaf %s: %v", g, n.Name, err)
		}
		stored = out
	case "notif-json", "notif-json_ietf":
		// a device notification whose update addresses the leaf and carries the value as JSON / JSON_IETF (what a gNMI
		// device sends in these encodings), through the conversion the sync loop applies to every notification
		ietf := c.In == "notif-json_ietf"
		path := vlib.P("types", n.Name)
		b, err := vlib.JSONLeafValue(path, want, ietf)
		if err != nil {
			harnessErr(err)
		}
		tv := &sdcpb.TypedValue{Value: &sdcpb.TypedValue_JsonVal{JsonVal: b}}
		if ietf {
			tv = &sdcpb.TypedValue{Value: &sdcpb.TypedValue_JsonIetfVal{JsonIetfVal: b}}
		}
		scb := schemaClient.NewSchemaClientBound(vlib.SchemaRef(), vlib.MustEnv().SchemaClient)
		nn, err := utils.NewConverter(scb).ConvertNotificationTypedValues(ctx, &sdcpb.Notification{Update: []*sdcpb.Update{{Path: path.Sdcpb(), Value: tv}}})
		if err != nil {
			return vlib.Failf(sig(c.In+"-refused", n, c), "ConvertNotificationTypedValues for leaf %s = %s (valid value %q): %v", n.Name, b, want, err)
		}
		for _, u := range nn.GetUpdate() {
			if vlib.FromSdcpb(u.GetPath()).Canon() == path.Canon() {
				stored = u.GetValue()
			}
		}
		if stored == nil {
			return vlib.Failf(sig("in-"+c.In, n, c), "leaf %s = %s: the converted notification holds no value for the leaf: %v", n.Name, b, nn)
		}
	case "gnmi":
		g := nativeGNMI(n, c.Vals)
		if g == nil {
			vlib.GetStats("C12").Discard("no-native-gnmi-form")
			return nil
		}
		s := utils.FromGNMITypedValue(g)
		if s == nil {
			return vlib.Failf(sig("from-gnmi-nil", n, c), "FromGNMITypedValue(%v) returned nil for leaf %s value %q", g, n.Name, want)
		}
		out, err := utils.TypedValueToYANGType(s, se)
		if err != nil {
			return vlib.Failf(sig("from-gnmi-refused", n, c), "TypedValueToYANGType(FromGNMITypedValue(%v)) for leaf %s: %v", g, n.Name, err)
		}
		stored = out
	}
	got, err := vlib.DenoteTV(n, stored)
	if err != nil || got != want {
		return vlib.Failf(sig("in-"+c.In, n, c), "leaf %s: value %q given as %s is held as %v, which denotes %q (%v)", n.Name, want, c.In, stored, got, err)
	}
	// outputs, from the native typed value
	native := vlib.TVFromDenotation(n, want)
	// string
	if n.Kind == vlib.KLeaf {
		s := utils.TypedValueToString(native)
		d, err := vlib.NodeLexToDenotation(n, s)
		if n.Type == "empty" {
			d, err = "", nil
		}
		if err != nil || d != want {
			return vlib.Failf(sig("out-string", n, c), "leaf %s: TypedValueToString(%v) = %q which denotes %q (%v), want %q", n.Name, native, s, d, err, want)
		}
	}
	// gNMI
	g := utils.ToGNMITypedValue(native)
	if d, err := gnmiDenote(n, g); err != nil || d != want {
		return vlib.Failf(sig("out-gnmi", n, c), "leaf %s: ToGNMITypedValue(%v) = %v which denotes %q (%v), want %q", n.Name, native, g, d, err, want)
	}
	// JSON / JSON_IETF
	for _, ietf := range []bool{false, true} {
		jv, err := utils.GetJsonValue(native, ietf)
		if err != nil {
			return vlib.Failf(sig("out-json-error", n, c), "leaf %s: GetJsonValue(%v, ietf=%v): %v", n.Name, native, ietf, err)
		}
		b, _ := json.Marshal(jv)
		var back any
		dec := json.NewDecoder(strings.NewReader(string(b)))
		dec.UseNumber()
		_ = dec.Decode(&back)
		if d, err := jsonValueDenote(n, back, ietf); err != nil || d != want {
			k := "out-json"
			if ietf {
				k = "out-json-ietf"
			}
			return vlib.Failf(sig(k, n, c), "leaf %s: GetJsonValue(%v, ietf=%v) = %s which denotes %q (%v), want %q", n.Name, native, ietf, b, d, err, want)
		}
	}
	// XML
	parent := etree.NewElement("types")
	utils.TypedValueToXML(parent, native, n.Name, "", false, false, false)
	if d, err := xmlValueDenote(n, parent); err != nil || d != want {
		doc := etree.NewDocument()
		doc.AddChild(parent)
		s, _ := doc.WriteToString()
		return vlib.Failf(sig("out-xml", n, c), "leaf %s: TypedValueToXML(%v) = %s which denotes %q (%v), want %q", n.Name, native, s, d, err, want)
	}
	return nil
}

func execEqual(ctx context.Context, n *vlib.Node, c *Case) *vlib.Failure {
	se := schemaOf(ctx, n)
	conv := func(vals []string, pad bool) (*sdcpb.TypedValue, error) {
		lv := make([]string, len(vals))
		for i, v := range vals {
			lv[i] = lex(n, v, pad)
		}
		var in *sdcpb.TypedValue
		if n.Kind == vlib.KLeaf {
			in = &sdcpb.TypedValue{Value: &sdcpb.TypedValue_StringVal{StringVal: lv[0]}}
			return utils.TypedValueToYANGType(in, se)
		}
		// as a NETCONF device report arrives: one leaf-list value whose elements are the texts
		var el []*sdcpb.TypedValue
		for _, l := range lv {
			el = append(el, &sdcpb.TypedValue{Value: &sdcpb.TypedValue_StringVal{StringVal: l}})
		}
		return utils.TypedValueToYANGType(&sdcpb.TypedValue{Value: &sdcpb.TypedValue_LeaflistVal{LeaflistVal: &sdcpb.ScalarArray{Element: el}}}, se)
	}
	// the same, through the converter of the given input form
	convForm := func(form string, vals []string, pad bool) (*sdcpb.TypedValue, error) {
		switch form {
		case "notif-proto":
			// the value as a gNMI device reports it in proto encoding, through the conversion of the sync loop
			g := nativeGNMI(n, vals)
			if g == nil {
				return conv(vals, pad)
			}
			path := vlib.P("types", n.Name)
			scb := schemaClient.NewSchemaClientBound(vlib.SchemaRef(), vlib.MustEnv().SchemaClient)
			nn, err := utils.NewConverter(scb).ConvertNotificationTypedValues(ctx, &sdcpb.Notification{Update: []*sdcpb.Update{{Path: path.Sdcpb(), Value: utils.FromGNMITypedValue(g)}}})
			if err != nil {
				return nil, err
			}
			for _, u := range nn.GetUpdate() {
				if vlib.FromSdcpb(u.GetPath()).Canon() == path.Canon() {
					return u.GetValue(), nil
				}
			}
			return nil, fmt.Errorf("no value in the converted notification")
		case "xml":
			if n.Kind != vlib.KLeaf || n.Type == "empty" {
				return conv(vals, pad)
			}
			// (the NETCONF adapter resolves a leafref to the type of its target before it converts the text)
			lt := leafType(se)
			for lt.GetLeafrefTargetType() != nil {
				lt = lt.GetLeafrefTargetType()
			}
			return utils.Convert(lex(n, vals[0], pad), lt)
		case "client-typed":
			if n.Kind == vlib.KLeafList {
				// (elements in the given order: the denotation of a leaf-list is sorted)
				sn := *n
				sn.Kind = vlib.KLeaf
				var el []*sdcpb.TypedValue
				for _, v := range vals {
					el = append(el, vlib.TVFromDenotation(&sn, v))
				}
				return utils.ConvertTypedValueToYANGType(se, &sdcpb.TypedValue{Value: &sdcpb.TypedValue_LeaflistVal{LeaflistVal: &sdcpb.ScalarArray{Element: el}}})
			}
			return utils.ConvertTypedValueToYANGType(se, vlib.TVFromDenotation(n, den(n, vals)))
		case "client-string":
			lv := make([]string, len(vals))
			for i, v := range vals {
				lv[i] = lex(n, v, pad)
			}
			in := vlib.StringTVFromDenotation(n, den(n, lv))
			if n.Kind == vlib.KLeaf && n.Type != "empty" {
				in = &sdcpb.TypedValue{Value: &sdcpb.TypedValue_StringVal{StringVal: lv[0]}}
			}
			if n.Kind == vlib.KLeafList {
				var el []*sdcpb.TypedValue
				for _, l := range lv {
					el = append(el, &sdcpb.TypedValue{Value: &sdcpb.TypedValue_StringVal{StringVal: l}})
				}
				in = &sdcpb.TypedValue{Value: &sdcpb.TypedValue_LeaflistVal{LeaflistVal: &sdcpb.ScalarArray{Element: el}}}
			}
			return utils.ConvertTypedValueToYANGType(se, in)
		}
		return conv(vals, pad)
	}
	fa, fb := "device", "device"
	if len(c.EqForms) == 2 {
		fa, fb = c.EqForms[0], c.EqForms[1]
	}
	a, err1 := convForm(fa, c.Vals, c.Pad)
	b, err2 := convForm(fb, c.Vals2, !c.Pad)
	if err1 != nil || err2 != nil || a == nil || b == nil {
		vlib.GetStats("C12").Discard("converter-refused-in-equal-mode")
		return nil
	}
	same := den(n, c.Vals) == den(n, c.Vals2)
	if n.Kind == vlib.KLeafList {
		// element order matters to EqualTypedValues; compare only equal-order lists
		same = strings.Join(c.Vals, "\x00") == strings.Join(c.Vals2, "\x00")
		if !same && den(n, c.Vals) == den(n, c.Vals2) {
			return nil
		}
	}
	if got := utils.EqualTypedValues(a, b); got != same {
		k := "equal-but-different"
		if same {
			k = "same-but-unequal"
		}
		if fa != fb {
			k += ":cross-form"
		}
		return vlib.Failf(sig(k, n, c), "leaf %s: values %q (%s form) and %q (%s form) (converted by the code: %v and %v): EqualTypedValues=%v, denote the same datum=%v", n.Name, c.Vals, fa, c.Vals2, fb, a, b, got, same)
	}
	return nil
}

func execPipeline(ctx context.Context, n *vlib.Node, c *Case) *vlib.Failure {
	env := vlib.MustEnv()
	want := den(n, c.Vals)
	hc := &vlib.HistCase{Universe: "plain", Palette: []string{"a", "b", "c"}}
	var tee *vlib.GNMITee
	opts := vlib.HistEnvOpts{}
	if c.GNMI != "" {
		opts.WrapTarget = func(dev *vlib.Device) target.Target {
			gdev := vlib.NewGNMIDevice(dev.Snapshot())
			scb := schemaClient.NewSchemaClientBound(vlib.SchemaRef(), env.SchemaClient)
			real, err := target.New(ctx, "c12", &config.SBI{Type: "gnmi", Address: "bufnet", Port: 1, GnmiOptions: &config.SBIGnmiOptions{Encoding: c.GNMI}}, scb, gdev.DialOpts()...)
			if err != nil {
				harnessErr(err)
			}
			tee = &vlib.GNMITee{Dev: dev, Real: real, GDev: gdev}
			return tee
		}
	}
	h, err := vlib.NewHistEnv(ctx, env, hc, opts)
	if err != nil {
		harnessErr(err)
	}
	defer h.DS.Stop()
	if tee != nil {
		defer tee.GDev.Stop()
	}
	path := vlib.P("types", n.Name)
	lv := make([]string, len(c.Vals))
	for i, v := range c.Vals {
		lv[i] = lex(n, v, c.Pad)
	}
	explicit := vlib.Conf{path.Canon(): want}
	if c.In == "string" {
		explicit = vlib.Conf{path.Canon(): den(n, lv)}
	}
	if n.Type == "leafref" {
		tgt := map[string]string{"lrefu": "u64", "lrefi": "idr"}[n.Name]
		explicit[vlib.P("types", tgt).Canon()] = explicit[path.Canon()]
	}
	form := c.In
	if strings.HasSuffix(form, "-leaf") {
		form = "typed"
	}
	ri := vlib.ResolvedIntent{Name: "own0", Kind: "set", Prio: 10, Explicit: explicit, Form: form}
	req, err := vlib.BuildIntentRequest(ri)
	if err != nil {
		harnessErr(err)
	}
	if strings.HasSuffix(c.In, "-leaf") && (n.Kind == vlib.KLeafList || n.Type == "empty" || (c.In == "json_ietf-leaf" && (n.Type == "identityref" || n.LeafrefTo == "identityref"))) {
		// a JSON value addressed by the leaf path is only exercised for scalar leaves (arrays / [null] at a leaf path are not an input form the code claims)
		vlib.GetStats("C12").Discard("json-at-leaf-path-only-for-scalar-leaves")
		return nil
	}
	if strings.HasSuffix(c.In, "-leaf") {
		// the JSON value of the leaf, addressed by the leaf path itself
		ietf := c.In == "json_ietf-leaf"
		for _, u := range req.Update {
			up := vlib.FromSdcpb(u.Path)
			b, err := vlib.JSONLeafValue(up, explicit[up.Canon()], ietf)
			if err != nil {
				harnessErr(err)
			}
			if ietf {
				u.Value = &sdcpb.TypedValue{Value: &sdcpb.TypedValue_JsonIetfVal{JsonIetfVal: b}}
			} else {
				u.Value = &sdcpb.TypedValue{Value: &sdcpb.TypedValue_JsonVal{JsonVal: b}}
			}
		}
	}
	if c.In == "string" && n.Kind == vlib.KLeaf {
		for _, u := range req.Update {
			u.Value = &sdcpb.TypedValue{Value: &sdcpb.TypedValue_StringVal{StringVal: lv[0]}}
		}
	}
	var rend *vlib.Renderings
	h.Dev.OnSet = func(ctx context.Context, src target.TargetSource, rec *vlib.SetRecord) { rend = vlib.RenderAll(ctx, src) }
	rsp, err := h.SetRequest("t", []*sdcpb.TransactionIntent{req}, nil, false)
	if err != nil || len(vlib.IntentErrorsOf(rsp)) > 0 {
		return vlib.Failf(sig("pipeline-"+c.In+"-refused", n, c), "TransactionSet of leaf %s = %q (form %s, request %v) was refused: %v %v", n.Name, want, c.In, req.Update, err, vlib.IntentErrorsOf(rsp))
	}
	_ = h.DS.TransactionConfirm(ctx, "t")
	if rend == nil {
		return vlib.Failf(sig("pipeline-no-device-call", n, c), "TransactionSet of leaf %s = %q made no device call", n.Name, want)
	}
	if len(rend.Errs) > 0 {
		return vlib.Failf(sig("pipeline-render-error", n, c), "leaf %s = %q: rendering errors %v", n.Name, want, rend.Errs)
	}
	rec := h.Dev.LastRecord()
	if len(rec.Anomalies) > 0 {
		return vlib.Failf(sig("pipeline-device-proto", n, c), "leaf %s = %q (form %s): proto payload: %v", n.Name, want, c.In, rec.Anomalies)
	}
	if got, ok := h.Dev.Snapshot()[path.Canon()]; !ok || got != want {
		return vlib.Failf(sig("pipeline-device-proto", n, c), "leaf %s = %q (form %s): device holds %q (present=%v) from proto updates %v", n.Name, want, c.In, got, ok, rec.RawUpdates)
	}
	for _, ietf := range []bool{false, true} {
		raw := rend.JSONNew
		k := "pipeline-device-json"
		if ietf {
			raw, k = rend.IETFNew, "pipeline-device-json-ietf"
		}
		conf, an := vlib.DecodeJSONDoc(raw, ietf)
		if len(an) > 0 || conf[path.Canon()] != want {
			return vlib.Failf(sig(k, n, c), "leaf %s = %q (form %s): document %s decodes to %q anomalies=%v", n.Name, want, c.In, raw, conf[path.Canon()], an)
		}
	}
	for _, o := range vlib.AllXMLOpts(true) {
		ch := vlib.DecodeXMLDoc(rend.XML[o], false)
		if len(ch.Anomalies) > 0 || ch.Updates[path.Canon()] != want {
			return vlib.Failf(sig("pipeline-device-xml", n, c), "leaf %s = %q (form %s): XML (%s) %s decodes to %q anomalies=%v", n.Name, want, c.In, o, rend.XML[o], ch.Updates[path.Canon()], ch.Anomalies)
		}
	}
	if tee != nil {
		// the value as the real gnmiTarget delivered it (typed value / JSON inside a SetRequest) to the gNMI device
		if errs := tee.TakeErrs(); len(errs) > 0 {
			return vlib.Failf(sig("pipeline-gnmi-"+c.GNMI+"-set-error", n, c), "leaf %s = %q: gnmiTarget.Set failed: %v", n.Name, want, errs)
		}
		rec := tee.GDev.LastRecord()
		got, ok := tee.GDev.Snapshot()[path.Canon()]
		noValue := false
		if rec != nil {
			for _, a := range rec.Anomalies {
				if strings.Contains(a, "without a value") {
					noValue = true
				}
			}
		}
		switch {
		case noValue && c.GNMI == "proto":
			// no gNMI typed value for the type: the root cause ToGNMITypedValue shows in the pure mode
			k := "out-gnmi"
			return vlib.Failf(sig(k, n, c), "leaf %s = %q: the SetRequest of the real gnmiTarget (proto) carries the update without a value: %v", n.Name, want, rec.Anomalies)
		case rec != nil && len(rec.Anomalies) > 0:
			return vlib.Failf(sig("pipeline-gnmi-"+c.GNMI, n, c), "leaf %s = %q (form %s): SetRequest anomalies: %v", n.Name, want, c.In, rec.Anomalies)
		case !ok || got != want:
			return vlib.Failf(sig("pipeline-gnmi-"+c.GNMI, n, c), "leaf %s = %q (form %s): the gNMI device holds %q (present=%v) after the SetRequest %s", n.Name, want, c.In, got, ok, vlib.JSON(rec))
		}
	}
	dump, err := vlib.DumpIntended(ctx, env.Cache, h.DSName)
	if err != nil {
		return vlib.Failf(sig("pipeline-store", n, c), "dump: %v", err)
	}
	found := false
	for _, e := range dump {
		if e.Canon == path.Canon() {
			found = true
			if e.Den != want || e.Raw != "" {
				return vlib.Failf(sig("pipeline-store", n, c), "leaf %s = %q (form %s): stored value denotes %q %s", n.Name, want, c.In, e.Den, e.Raw)
			}
		}
	}
	if !found {
		return vlib.Failf(sig("pipeline-store", n, c), "leaf %s = %q: no stored entry; store=%v", n.Name, want, dump.Keys())
	}
	return nil
}

// execDrift: the comparison the transaction pipeline itself makes between the value the device reported and the
// value a stored intent holds. The intent is stored and delivered, the running store then receives another report
// for the leaf (Vals2), the intent is re-submitted verbatim: different data must be corrected (the intended value is
// sent again), the same datum must not be sent.
func execDrift(ctx context.Context, n *vlib.Node, c *Case) *vlib.Failure {
	env := vlib.MustEnv()
	want, reported := den(n, c.Vals), den(n, c.Vals2)
	if n.Type == "leafref" {
		vlib.GetStats("C12").Discard("drift-mode-skips-leafrefs")
		return nil
	}
	h, err := vlib.NewHistEnv(ctx, env, &vlib.HistCase{Universe: "plain", Palette: []string{"a", "b", "c"}}, vlib.HistEnvOpts{})
	if err != nil {
		harnessErr(err)
	}
	defer h.DS.Stop()
	path := vlib.P("types", n.Name)
	ri := vlib.ResolvedIntent{Name: "own0", Kind: "set", Prio: 10, Explicit: vlib.Conf{path.Canon(): want}, Form: "typed"}
	submit := func(tx string) (*sdcpb.TransactionSetResponse, *vlib.Failure) {
		req, err := vlib.BuildIntentRequest(ri)
		if err != nil {
			harnessErr(err)
		}
		rsp, err := h.SetRequest(tx, []*sdcpb.TransactionIntent{req}, nil, false)
		if err != nil || len(vlib.IntentErrorsOf(rsp)) > 0 {
			return nil, vlib.Failf(sig("drift-refused", n, c), "TransactionSet %s of leaf %s = %q was refused: %v %v", tx, n.Name, want, err, vlib.IntentErrorsOf(rsp))
		}
		_ = h.DS.TransactionConfirm(ctx, tx)
		return rsp, nil
	}
	if _, f := submit("t1"); f != nil {
		return f
	}
	if got := h.Dev.Snapshot()[path.Canon()]; got != want {
		return vlib.Failf(sig("pipeline-device-proto", n, c), "leaf %s = %q: device holds %q", n.Name, want, got)
	}
	if err := vlib.WriteConfigStore(ctx, env.Cache, h.DSName, vlib.Conf{path.Canon(): reported}); err != nil {
		harnessErr(err)
	}
	calls := h.Dev.Calls()
	if _, f := submit("t2"); f != nil {
		return f
	}
	sent, sentVal := false, ""
	if h.Dev.Calls() > calls {
		for _, u := range h.Dev.LastRecord().Updates {
			if u.Path.Canon() == path.Canon() {
				sent, sentVal = true, u.Den
			}
		}
	}
	switch {
	case want == reported && sent:
		return vlib.Failf(sig("same-but-unequal:drift", n, c), "leaf %s: the intent holds %q, the device reported %q (the same datum), the re-applied intent sends the value again (%q)", n.Name, c.Vals, c.Vals2, sentVal)
	case want != reported && !sent:
		return vlib.Failf(sig("equal-but-different:drift", n, c), "leaf %s: the intent holds %q, the device reported %q (a different datum), the re-applied intent does not correct it (device calls %d -> %d)", n.Name, c.Vals, c.Vals2, calls, h.Dev.Calls())
	case sent && sentVal != want:
		return vlib.Failf(sig("pipeline-device-proto", n, c), "leaf %s: correction carries %q, intended is %q", n.Name, sentVal, want)
	}
	return nil
}

func Exec(c *Case) (bool, []string, *vlib.Failure) {
	ctx := context.Background()
	n := typesNode.Child(c.Leaf)
	if n == nil || len(c.Vals) == 0 {
		harnessErr(fmt.Errorf("bad case %+v", c))
	}
	lab := []string{"mode-" + c.Mode, "in-" + c.In, "type-" + typeClass(n)}
	if c.GNMI != "" && c.Mode == "pipeline" {
		lab = append(lab, "real-gnmi-target-"+c.GNMI)
	}
	var f *vlib.Failure
	switch c.Mode {
	case "pure":
		f = execPure(ctx, n, c)
	case "equal":
		f = execEqual(ctx, n, c)
	case "drift":
		f = execDrift(ctx, n, c)
	default:
		f = execPipeline(ctx, n, c)
	}
	return nontrivial(n, c), lab, f
}

// TestSurvey enumerates a fixed grid and prints every distinct failure
// signature once (triage aid; not part of the registered checks).
func TestSurvey(t *testing.T) {
	if os.Getenv("VERIF_SURVEY") == "" {
		t.Skip()
	}
	seen := map[string]string{}
	var order []string
	run := func(c *Case) {
		defer func() {
			if r := recover(); r != nil {
				s := fmt.Sprintf("C12:panic:%s:%s", c.Mode, c.Leaf)
				if _, ok := seen[s]; !ok {
					seen[s] = fmt.Sprintf("%v case=%s", r, vlib.JSON(c))
					order = append(order, s)
				}
			}
		}()
		_, _, f := Exec(c)
		if f != nil {
			if _, ok := seen[f.Sig]; !ok {
				seen[f.Sig] = f.Detail + " case=" + vlib.JSON(c)
				order = append(order, f.Sig)
			}
		}
	}
	for _, n := range typesNode.Children {
		typ := n.Type
		if typ == "leafref" {
			typ = n.LeafrefTo
		}
		vals := bounds[typ]
		if typ == "decimal64" {
			vals = decBounds(n.FracDigits)
		}
		for _, v := range vals {
			if n.Kind == vlib.KLeafList && v == "" {
				continue
			}
			for _, pad := range []bool{false, true} {
				for _, in := range []string{"typed", "string", "xml", "gnmi", "gnmi-ascii"} {
					if n.Type == "empty" && in == "string" {
						continue
					}
					run(&Case{Leaf: n.Name, Vals: []string{v}, In: in, Mode: "pure", Pad: pad})
				}
				for _, in := range []string{"typed", "string", "json", "json_ietf", "json-leaf", "json_ietf-leaf"} {
					if n.Type == "empty" && in == "string" {
						continue
					}
					run(&Case{Leaf: n.Name, Vals: []string{v}, In: in, Mode: "pipeline", Pad: pad})
				}
				for _, w := range vals {
					run(&Case{Leaf: n.Name, Vals: []string{v}, Vals2: []string{w}, In: "string", Mode: "equal", Pad: pad})
				}
			}
		}
	}
	sort.Strings(order)
	for _, s := range order {
		fmt.Printf("SURVEY %s\n    %s\n", s, strings.ReplaceAll(seen[s], "\n", "\n    "))
	}
	fmt.Printf("SURVEY-TOTAL %d distinct signatures\n", len(order))
}

func TestProp(t *testing.T)   { prop.Check(t) }
func TestReplay(t *testing.T) { prop.Replay(t) }
func TestKnown(t *testing.T)  { prop.Known(t) }
