// C06 — transactions are exclusive, id-scoped and never wedge the datastore.
package c06

import (
	"github.com/sdcio/data-server/pkg/config"
	"context"
	"fmt"
	"os"
	"strconv"
	"testing"
	"time"

	"github.com/sdcio/data-server/pkg/datastore/types"
	sdcpb "github.com/sdcio/sdc-protos/sdcpb"
	"pgregory.net/rapid"
	"verif/harness/vlib"
)

func TestMain(m *testing.M) { vlib.Main(m) }

type Op struct {
	Kind string `json:"kind"` // set | confirm | cancel | wait
	// set
	SetKind string    `json:"set_kind,omitempty"` // valid | invalid | dry-run | device-error
	Step    vlib.Step `json:"step,omitempty"`
	Short   bool      `json:"short,omitempty"` // transaction timeout: short (shortT) or one hour
	// the device refuses the rollback when this (short) transaction expires
	RollbackFails bool `json:"rollback_fails,omitempty"`
	// the Set re-uses a transaction id: the id of the open transaction (a client retry) or of an earlier one
	Reuse string `json:"reuse,omitempty"` // "" | open | stale
	// confirm / cancel
	ID string `json:"id,omitempty"` // open | stale | unknown
}

type Case struct {
	Palette []string `json:"palette"`
	Ops     []Op     `json:"ops"`
	// Sequential: validation runs with disable-concurrency (an option of the validation configuration)
	Sequential bool `json:"sequential,omitempty"`
}

const (
	shortT    = 300 * time.Millisecond
	safeOpen  = 120 * time.Millisecond // a short transaction is certainly still open up to here
	safeGone  = shortT + 700*time.Millisecond
	setWaitTO = 300 * time.Millisecond // context of a TransactionSet issued while another transaction is open
)

var invalidFrags = vlib.FragmentIdx(func(f vlib.Fragment) bool { return f.Class != "" && f.Class != "type" && !f.Lax })

func gen(t *rapid.T) *Case {
	o := vlib.HistGenOpts{Universe: vlib.UniPlain, Forms: []string{"typed"}}
	c := &Case{Palette: vlib.GenPalette(t), Sequential: rapid.IntRange(0, 2).Draw(t, "sequential-validation") == 0}
	n := rapid.IntRange(2, 9).Draw(t, "nops")
	for i := 0; i < n; i++ {
		op := Op{Kind: rapid.SampledFrom([]string{"set", "set", "set", "confirm", "confirm", "cancel", "cancel", "wait"}).Draw(t, "op")}
		switch op.Kind {
		case "set":
			op.SetKind = rapid.SampledFrom([]string{"valid", "valid", "valid", "invalid", "dry-run", "device-error"}).Draw(t, "set-kind")
			owner := rapid.IntRange(0, 3).Draw(t, "owner")
			io := vlib.GenIntentOp(t, o, owner)
			if op.SetKind == "invalid" {
				io.Kind, io.Leaves, io.Form = "set", nil, "typed"
				io.Frags = []int{rapid.SampledFrom(invalidFrags).Draw(t, "invalid-fragment")}
				if rapid.IntRange(0, 3).Draw(t, "many-invalid-fragments") == 0 {
					// a request that yields many validation errors at once
					io.Frags = append([]int{}, invalidFrags...)
				}
			}
			op.Step = vlib.Step{Intents: []vlib.IntentOp{io}}
			op.Short = rapid.IntRange(0, 2).Draw(t, "short-timeout") == 0
			op.RollbackFails = op.Short && rapid.IntRange(0, 3).Draw(t, "rollback-fails") == 0
			op.Reuse = rapid.SampledFrom([]string{"", "", "", "open", "open", "stale"}).Draw(t, "reuse-id")
		case "confirm", "cancel":
			op.ID = rapid.SampledFrom([]string{"open", "open", "stale", "unknown"}).Draw(t, "id")
		}
		c.Ops = append(c.Ops, op)
	}
	return c
}

var prop = vlib.Prop[*Case]{
	ID: "C06",
	Rule: "case = sequence of 2..9 operations over {TransactionSet(valid | validation failure | dry run | device error; transaction timeout 300 ms or 1 h), TransactionConfirm / TransactionCancel(id of the open transaction | id of an earlier transaction | never used id), wait-for-timeout} on one real datastore; a Set issued while a transaction is open gets a 300 ms context and may carry the id of the open transaction (client retry) or of an earlier one; " +
		"oracle = reference model of the slot (none | open(id)): Set while open is refused and leaves the open transaction and the device untouched; Confirm / Cancel with another id fail, the same transaction stays open with its timer armed (observer hook, sampled over 30 ms) and the device sees no traffic; a short transaction left alone is rolled back exactly once (one device call, which the device is made to refuse for a quarter of them) and the slot is free 700 ms after its timeout; Confirm of the open id frees the slot without device traffic and no rollback follows; Cancel of the open id frees it with exactly one device call; after every other Set outcome (validation failure, dry run, device error) the slot is free no later than 700 ms after the transaction timeout without any client action and the next Set is accepted; answers inside the uncertainty window of a short timeout (120 ms .. timeout + 700 ms) are not judged; " +
		"non-trivial = at least one confirm / cancel with a foreign id on an open transaction, a Set on an occupied slot, a timeout expiry, or a non-success Set outcome followed by another Set; distinct = distinct cases",
	Gen:  gen,
	Exec: Exec,
}

type open struct {
	id       string
	short    bool
	failRB   bool
	t0       time.Time
	resolved []vlib.ResolvedIntent
	callsAt  int // device calls right after the apply
	// noCount: a Set issued inside the uncertainty window may have obtained the slot after the expiry and talked to the
	// device before failing; the rollback of this transaction can then no longer be counted
	noCount bool
}

type run struct {
	h     *vlib.HistEnv
	cur   *open
	stale []string
	txn   int
	lab   map[string]bool
	nt    bool
}

func (r *run) peek() (string, bool, bool) { return r.h.DS.VerifPeekTransaction() }

// settle handles an open short transaction that has left its safe window: wait for the expiry and check it.
func (r *run) settle(force bool) *vlib.Failure {
	if r.cur == nil || !r.cur.short {
		return nil
	}
	if !force && time.Since(r.cur.t0) < safeOpen {
		return nil
	}
	if r.cur.failRB && time.Since(r.cur.t0) < safeOpen {
		// the device will refuse the rollback of the expiring transaction
		r.h.Dev.FailAt = r.h.Dev.Calls() + 1
		r.lab["device-refuses-expiry-rollback"] = true
	}
	if d := safeGone - time.Since(r.cur.t0); d > 0 {
		time.Sleep(d)
	}
	r.h.Dev.FailAt = 0
	r.lab["timeout-expiry"] = true
	r.nt = true
	id, isOpen, _ := r.peek()
	if isOpen {
		return vlib.Failf("C06:still-open-after-timeout", "transaction %s (timeout %v) was left alone; %v after it was applied the slot still holds %q", r.cur.id, shortT, time.Since(r.cur.t0).Round(time.Millisecond), id)
	}
	if got := r.h.Dev.Calls() - r.cur.callsAt; got != 1 && !(r.cur.noCount && got >= 1) {
		return vlib.Failf("C06:rollback-count-after-timeout", "transaction %s timed out: the device saw %d calls after the apply, expected exactly one rollback", r.cur.id, got)
	}
	r.stale = append(r.stale, r.cur.id)
	r.cur = nil
	return nil
}

func (r *run) certainlyOpen() bool {
	return r.cur != nil && (!r.cur.short || time.Since(r.cur.t0) < safeOpen)
}

// stillOpenAndArmed samples the observer for 30 ms.
func (r *run) stillOpenAndArmed(what string) *vlib.Failure {
	for i := 0; i < 4; i++ {
		id, isOpen, armed := r.peek()
		if !r.certainlyOpen() {
			r.lab["judgement-skipped-uncertain-window"] = true
			return nil
		}
		if !isOpen || id != r.cur.id {
			return vlib.Failf("C06:"+what+":open-transaction-lost", "after %s the slot holds (%q, open=%v), expected transaction %s to stay open", what, id, isOpen, r.cur.id)
		}
		if !armed {
			return vlib.Failf("C06:"+what+":timer-stopped", "after %s transaction %s is still open but its rollback timer is no longer armed", what, r.cur.id)
		}
		time.Sleep(10 * time.Millisecond)
	}
	return nil
}

func (r *run) buildReqs(res []vlib.ResolvedIntent) []*types.TransactionIntent {
	var tis []*types.TransactionIntent
	for _, ri := range res {
		req, err := vlib.BuildIntentRequest(ri)
		if err != nil {
			fmt.Fprintf(os.Stderr, "HARNESS-ERROR %v\n", err)
			os.Exit(2)
		}
		ti, err := r.h.DS.SdcpbTransactionIntentToInternalTI(r.h.Ctx, req)
		if err != nil {
			return nil
		}
		tis = append(tis, ti)
	}
	return tis
}

func Exec(c *Case) (nontrivial bool, labels []string, fail *vlib.Failure) {
	ctx := context.Background()
	env := vlib.MustEnv()
	hc := &vlib.HistCase{Universe: "plain", Palette: c.Palette}
	hopts := vlib.HistEnvOpts{}
	if c.Sequential {
		hopts.Validation = &config.Validation{DisableConcurrency: true}
	}
	h, err := vlib.NewHistEnv(ctx, env, hc, hopts)
	if err != nil {
		fmt.Fprintf(os.Stderr, "HARNESS-ERROR %v\n", err)
		os.Exit(2)
	}
	defer h.DS.Stop()
	r := &run{h: h, lab: map[string]bool{}}
	if c.Sequential {
		r.lab["validation-disable-concurrency"] = true
	}
	defer func() {
		// do not leave a timer behind
		if id, isOpen, _ := r.peek(); isOpen {
			_ = h.DS.TransactionCancel(ctx, id)
			_ = h.DS.TransactionConfirm(ctx, id)
		}
	}()
	ret := func(f *vlib.Failure) (bool, []string, *vlib.Failure) { return r.nt, keys(r.lab), f }
	pendingOutcome := "" // a non-success Set outcome happened before: the next accepted Set makes the case non-trivial
	for i, op := range c.Ops {
		if f := r.settle(false); f != nil {
			return ret(f)
		}
		where := fmt.Sprintf("op %d (%s)", i+1, op.Kind)
		switch op.Kind {
		case "wait":
			if r.cur != nil && r.cur.short {
				if f := r.settle(true); f != nil {
					return ret(f)
				}
			} else if r.cur != nil {
				time.Sleep(20 * time.Millisecond)
				if f := r.stillOpenAndArmed("wait"); f != nil {
					return ret(f)
				}
			}
		case "confirm", "cancel":
			id := "never-used"
			switch op.ID {
			case "open":
				if r.cur != nil {
					id = r.cur.id
				} else if len(r.stale) > 0 {
					id = r.stale[len(r.stale)-1]
				}
			case "stale":
				if len(r.stale) > 0 {
					id = r.stale[0]
				}
			}
			calls := h.Dev.Calls()
			var err error
			if op.Kind == "confirm" {
				err = h.DS.TransactionConfirm(ctx, id)
			} else {
				err = h.DS.TransactionCancel(ctx, id)
			}
			where += fmt.Sprintf(" id=%q open=%v", id, r.cur != nil)
			switch {
			case r.cur == nil:
				r.lab[op.Kind+"-without-open-transaction"] = true
				if err == nil {
					return ret(vlib.Failf("C06:"+op.Kind+":success-without-transaction", "%s: no transaction is open, yet the call succeeded", where))
				}
				if h.Dev.Calls() != calls {
					return ret(vlib.Failf("C06:"+op.Kind+":device-traffic-without-transaction", "%s: no transaction is open, yet the device saw %d calls", where, h.Dev.Calls()-calls))
				}
			case !r.certainlyOpen():
				// the timeout may have struck in between: settle, judge nothing
				r.lab["judgement-skipped-uncertain-window"] = true
				if err == nil {
					// resolved by the client at the last moment
					r.stale = append(r.stale, r.cur.id)
					r.cur = nil
				}
			case id == r.cur.id:
				r.lab[op.Kind+"-open-id"] = true
				if err != nil {
					return ret(vlib.Failf("C06:"+op.Kind+":refused-for-open-id", "%s: %v", where, err))
				}
				if _, isOpen, _ := r.peek(); isOpen {
					return ret(vlib.Failf("C06:"+op.Kind+":slot-not-freed", "%s succeeded but the slot is still occupied", where))
				}
				want := 0
				if op.Kind == "cancel" {
					want = 1
				}
				if got := h.Dev.Calls() - calls; got != want {
					return ret(vlib.Failf("C06:"+op.Kind+":device-calls", "%s: the device saw %d calls, expected %d", where, got, want))
				}
				if op.Kind == "confirm" {
					h.Model.Apply(r.cur.resolved)
					if r.cur.short {
						// no rollback may follow a successful confirm
						time.Sleep(safeGone - time.Since(r.cur.t0))
						if got := h.Dev.Calls() - calls; got != 0 {
							return ret(vlib.Failf("C06:rollback-after-confirm", "%s: transaction confirmed, %d device calls followed its timeout", where, got))
						}
						r.lab["confirmed-short-transaction-not-rolled-back"] = true
					}
				}
				r.stale = append(r.stale, r.cur.id)
				r.cur = nil
			default:
				r.lab[op.Kind+"-foreign-id"] = true
				r.nt = true
				if err == nil {
					return ret(vlib.Failf("C06:"+op.Kind+":foreign-id-accepted", "%s: transaction %s is open, the call naming another id succeeded", where, r.cur.id))
				}
				if f := r.stillOpenAndArmed(op.Kind + "-foreign-id"); f != nil {
					return ret(f)
				}
				if got := h.Dev.Calls() - calls; got != 0 {
					return ret(vlib.Failf("C06:"+op.Kind+":foreign-id-device-traffic", "%s: transaction %s is open, the call naming another id failed (%v) but the device saw %d calls", where, r.cur.id, err, got))
				}
			}
		case "set":
			r.txn++
			id := "t" + strconv.Itoa(r.txn)
			switch {
			case op.Reuse == "open" && r.cur != nil:
				id = r.cur.id
				r.lab["set-reuses-open-id"] = true
			case op.Reuse == "stale" && len(r.stale) > 0:
				id = r.stale[len(r.stale)-1]
				r.lab["set-reuses-earlier-id"] = true
			}
			res := h.Model.ResolveStep(h.Uni, h.Palette, op.Step)
			tis := r.buildReqs(res)
			if tis == nil {
				r.lab["intent-conversion-refused"] = true
				continue
			}
			timeout := time.Hour
			if op.Short {
				timeout = shortT
			}
			calls := h.Dev.Calls()
			where += fmt.Sprintf(" %s id=%s timeout=%v", op.SetKind, id, timeout)
			if r.cur != nil {
				// occupied slot: must be refused
				sctx, cancel := context.WithTimeout(ctx, setWaitTO)
				_, err := h.DS.TransactionSet(sctx, id, tis, nil, timeout, op.SetKind == "dry-run")
				cancel()
				if !r.certainlyOpen() {
					r.lab["judgement-skipped-uncertain-window"] = true
					if err == nil {
						// it got the slot after the expiry: take it over in the model
						if f := r.adoptAfterUncertain(id, op, res); f != nil {
							return ret(f)
						}
					} else if r.cur != nil && h.Dev.Calls() != calls {
						r.cur.noCount = true
						r.lab["rollback-count-not-judged"] = true
					}
					continue
				}
				r.lab["set-on-occupied-slot"] = true
				r.nt = true
				if err == nil {
					return ret(vlib.Failf("C06:set-accepted-while-open", "%s: accepted although transaction %s is open", where, r.cur.id))
				}
				if f := r.stillOpenAndArmed("set-on-occupied-slot"); f != nil {
					return ret(f)
				}
				if got := h.Dev.Calls() - calls; got != 0 {
					return ret(vlib.Failf("C06:set-on-occupied-slot:device-traffic", "%s: refused, but the device saw %d calls", where, got))
				}
				continue
			}
			if op.SetKind == "device-error" {
				h.Dev.FailAt = h.Dev.Calls() + 1
			}
			sctx, cancel := context.WithTimeout(ctx, 10*time.Second)
			t0 := time.Now()
			// a Set on a free slot over a device that answers at once returns at once; one that never returns holds the
			// datastore lock for good
			type setRes struct {
				rsp *sdcpb.TransactionSetResponse
				err error
			}
			setCh := make(chan setRes, 1)
			go func() {
				rsp, err := h.DS.TransactionSet(sctx, id, tis, nil, timeout, op.SetKind == "dry-run")
				setCh <- setRes{rsp, err}
			}()
			var rsp *sdcpb.TransactionSetResponse
			var err error
			select {
			case x := <-setCh:
				rsp, err = x.rsp, x.err
			case <-time.After(40 * time.Second):
				cancel()
				return ret(vlib.Failf("C06:set-does-not-return", "%s: TransactionSet on a free slot has not returned after 40 s (its context ended after 10 s)", where))
			}
			took := time.Since(t0)
			cancel()
			h.Dev.FailAt = 0
			if pendingOutcome != "" {
				if took > 5*time.Second || err != nil && err.Error() == "datastore is locked" {
					return ret(vlib.Failf("C06:wedged-after-"+pendingOutcome, "%s: the first Set after a %s outcome was not accepted (%v after %v)", where, pendingOutcome, err, took.Round(time.Millisecond)))
				}
				r.nt = true
				r.lab["set-after-"+pendingOutcome] = true
				pendingOutcome = ""
			}
			ie := map[string][]string{}
			if rsp != nil {
				ie = vlib.IntentErrorsOf(rsp)
			}
			applied := err == nil && len(ie) == 0 && op.SetKind != "dry-run"
			if applied {
				if op.SetKind == "device-error" && h.Dev.Calls() > calls {
					return ret(vlib.Failf("C06:device-error-swallowed", "%s: the device refused the change, the Set succeeded", where))
				}
				if op.SetKind == "device-error" {
					// no change for the device: nothing failed; it is a plain applied transaction
					r.lab["device-error-not-reached-empty-change"] = true
				}
				pid, isOpen, armed := r.peek()
				r.cur = &open{id: id, short: op.Short, failRB: op.RollbackFails, t0: time.Now(), resolved: res, callsAt: h.Dev.Calls()}
				if r.certainlyOpen() && (!isOpen || pid != id || !armed) {
					return ret(vlib.Failf("C06:applied-transaction-not-open", "%s: applied, but the slot shows (%q, open=%v, timer armed=%v)", where, pid, isOpen, armed))
				}
				r.lab["set-applied"] = true
				continue
			}
			// every other outcome: nothing to confirm; the slot must become free without client action
			outcome := op.SetKind
			switch {
			case err != nil:
				outcome = "error"
			case len(ie) > 0:
				outcome = "validation-failure"
			case op.SetKind == "dry-run":
				outcome = "dry-run"
			}
			r.lab["set-outcome-"+outcome] = true
			if got := h.Dev.Calls() - calls; outcome != "error" && got != 0 {
				return ret(vlib.Failf("C06:"+outcome+":device-traffic", "%s: outcome %s, yet the device saw %d calls", where, outcome, got))
			}
			if pid, isOpen, armed := r.peek(); isOpen {
				// allowed up to the transaction timeout
				if !op.Short {
					if !armed {
						return ret(vlib.Failf("C06:slot-held-after-"+outcome, "%s: outcome %s leaves the slot occupied and no timer is armed that could ever free it: %v", where, outcome, describe(r)))
					}
					// held until the 1 h timeout: allowed by the letter of the property; free it as a client would
					r.lab["slot-held-until-timeout-after-"+outcome] = true
					_ = h.DS.TransactionCancel(ctx, pid)
					_ = h.DS.TransactionConfirm(ctx, pid)
					r.stale = append(r.stale, id)
					pendingOutcome = outcome
					continue
				}
				time.Sleep(safeGone)
				if pid, isOpen, armed := r.peek(); isOpen {
					return ret(vlib.Failf("C06:slot-held-after-"+outcome, "%s: outcome %s; %v later (timeout %v) and without client action the slot still holds %q (timer armed=%v)", where, outcome, safeGone, shortT, pid, armed))
				}
			}
			r.stale = append(r.stale, id)
			pendingOutcome = outcome
		}
	}
	if f := r.settle(false); f != nil {
		return ret(f)
	}
	return ret(nil)
}

func (r *run) adoptAfterUncertain(id string, op Op, res []vlib.ResolvedIntent) *vlib.Failure {
	// the previous short transaction expired while the Set was waiting
	r.stale = append(r.stale, r.cur.id)
	r.cur = nil
	if pid, isOpen, _ := r.peek(); isOpen && pid == id && op.SetKind != "dry-run" {
		r.cur = &open{id: id, short: op.Short, t0: time.Now(), resolved: res, callsAt: r.h.Dev.Calls()}
	} else if isOpen {
		_ = r.h.DS.TransactionCancel(r.h.Ctx, pid)
		_ = r.h.DS.TransactionConfirm(r.h.Ctx, pid)
	}
	return nil
}

func describe(r *run) string {
	id, isOpen, armed := r.peek()
	return fmt.Sprintf("slot=(%q open=%v armed=%v)", id, isOpen, armed)
}

func keys(m map[string]bool) []string {
	var r []string
	for k := range m {
		r = append(r, k)
	}
	return r
}

var _ = sdcpb.Encoding_JSON

func TestProp(t *testing.T)   { prop.Check(t) }
func TestReplay(t *testing.T) { prop.Replay(t) }
func TestKnown(t *testing.T)  { prop.Known(t) }
